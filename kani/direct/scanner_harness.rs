//! Kani harnesses compiled inside `saphyr_parser::scanner` as a child module (sees private items),
//! plus the token-injection support used by the parser harnesses.
#![allow(dead_code, unused_imports, clippy::all)]
use super::*;
use crate::input::str::StrInput;

#[path = "/verif/kani/common/sym.rs"]
pub mod sym;

#[cfg(test)]
mod playback {
    use super::*;
    include!("/verif/.work/playback/scanner.rs");
}

pub const MAXTOK: usize = 10;

/// Token kinds of an injected token sequence.
pub mod tk {
    pub const STREAM_START: u8 = 0;
    pub const STREAM_END: u8 = 1;
    pub const VERSION_DIRECTIVE: u8 = 2;
    pub const TAG_DIRECTIVE: u8 = 3;
    pub const DOCUMENT_START: u8 = 4;
    pub const DOCUMENT_END: u8 = 5;
    pub const BLOCK_SEQUENCE_START: u8 = 6;
    pub const BLOCK_MAPPING_START: u8 = 7;
    pub const BLOCK_END: u8 = 8;
    pub const FLOW_SEQUENCE_START: u8 = 9;
    pub const FLOW_SEQUENCE_END: u8 = 10;
    pub const FLOW_MAPPING_START: u8 = 11;
    pub const FLOW_MAPPING_END: u8 = 12;
    pub const BLOCK_ENTRY: u8 = 13;
    pub const FLOW_ENTRY: u8 = 14;
    pub const KEY: u8 = 15;
    pub const VALUE: u8 = 16;
    pub const ALIAS: u8 = 17;
    pub const ANCHOR: u8 = 18;
    pub const TAG: u8 = 19;
    pub const SCALAR: u8 = 20;
    pub const COUNT: u8 = 21;
}

/// A token sequence handed to the parser instead of scanning. `kinds[i]` is a `tk::*` code,
/// `payload[i]` selects among a few fixed strings for tokens that carry text. After the last token
/// the (pretend) scanner reports an error, which is what a real scanner does when it cannot go on;
/// a sequence containing `STREAM_END` ends the stream there.
#[derive(Debug)]
pub struct Inject {
    pub kinds: [u8; MAXTOK],
    pub payload: [u8; MAXTOK],
    pub len: usize,
    pub pos: usize,
}

pub const NAMES: [&str; 3] = ["a", "b", "c"];
/// (handle, prefix) pairs for %TAG directives.
pub const DIRECTIVES: [(&str, &str); 4] = [("!a!", "p1:"), ("!b!", "p2:"), ("!!", "p3:"), ("!", "p4:")];
/// (handle, suffix) pairs for node tags as the scanner reports them.
pub const TAGS: [(&str, &str); 7] =
    [("!!", "s"), ("!a!", "s"), ("!b!", "s"), ("!c!", "s"), ("!", "s"), ("", "v"), ("", "!")];

impl Inject {
    pub fn token_span(i: usize) -> Span {
        // token i occupies [3i+1, 3i+3): ordered, disjoint, non-empty, line 1
        Span::new(Marker::new(3 * i + 1, 1, 3 * i + 1), Marker::new(3 * i + 3, 1, 3 * i + 3))
    }
    pub fn make<'a>(kind: u8, payload: u8, i: usize) -> Token<'a> {
        let p = payload as usize;
        let tt = match kind {
            tk::STREAM_START => TokenType::StreamStart(TEncoding::Utf8),
            tk::STREAM_END => TokenType::StreamEnd,
            tk::VERSION_DIRECTIVE => TokenType::VersionDirective(1, 2),
            tk::TAG_DIRECTIVE => {
                let (h, pre) = DIRECTIVES[p % DIRECTIVES.len()];
                TokenType::TagDirective(Cow::Borrowed(h), Cow::Borrowed(pre))
            }
            tk::DOCUMENT_START => TokenType::DocumentStart,
            tk::DOCUMENT_END => TokenType::DocumentEnd,
            tk::BLOCK_SEQUENCE_START => TokenType::BlockSequenceStart,
            tk::BLOCK_MAPPING_START => TokenType::BlockMappingStart,
            tk::BLOCK_END => TokenType::BlockEnd,
            tk::FLOW_SEQUENCE_START => TokenType::FlowSequenceStart,
            tk::FLOW_SEQUENCE_END => TokenType::FlowSequenceEnd,
            tk::FLOW_MAPPING_START => TokenType::FlowMappingStart,
            tk::FLOW_MAPPING_END => TokenType::FlowMappingEnd,
            tk::BLOCK_ENTRY => TokenType::BlockEntry,
            tk::FLOW_ENTRY => TokenType::FlowEntry,
            tk::KEY => TokenType::Key,
            tk::VALUE => TokenType::Value,
            tk::ALIAS => TokenType::Alias(Cow::Borrowed(NAMES[p % NAMES.len()])),
            tk::ANCHOR => TokenType::Anchor(Cow::Borrowed(NAMES[p % NAMES.len()])),
            tk::TAG => {
                let (h, s) = TAGS[p % TAGS.len()];
                TokenType::Tag(String::from(h), String::from(s))
            }
            _ => TokenType::Scalar(ScalarStyle::Plain, Cow::Borrowed(NAMES[p % NAMES.len()])),
        };
        Token(Self::token_span(i), tt)
    }
}

impl<'input, T: Input> Scanner<'input, T> {
    /// Set the stream flags the parser's `load` observes (harness set-up of a mid-stream state).
    pub(crate) fn verif_set_stream_flags(&mut self, started: bool, ended: bool) {
        self.stream_start_produced = started;
        self.stream_end_produced = ended;
    }
    /// Replacement for the scanning part of `next_token` when a token sequence is injected. Keeps
    /// the scanner-side bookkeeping the parser observes (`stream_started`, `stream_ended`,
    /// `mark`, `tokens_parsed`).
    pub(crate) fn verif_next_injected(&mut self) -> Result<Option<Token<'input>>, ScanError> {
        let inj = self.verif_inject.as_mut().unwrap();
        if inj.pos >= inj.len {
            return Err(ScanError::new_str(self.mark, "injected: scanner error"));
        }
        let i = inj.pos;
        inj.pos += 1;
        let t = Inject::make(inj.kinds[i], inj.payload[i], i);
        self.tokens_parsed += 1;
        self.mark = t.0.end;
        match t.1 {
            TokenType::StreamStart(_) => self.stream_start_produced = true,
            TokenType::StreamEnd => self.stream_end_produced = true,
            _ => {}
        }
        Ok(Some(t))
    }
}

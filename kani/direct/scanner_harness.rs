//! Kani harnesses compiled inside `saphyr_parser::scanner` as a child module (sees private items),
//! plus the token-injection support used by the parser harnesses.
#![allow(dead_code, unused_imports, clippy::all)]
use super::*;
use crate::input::str::StrInput;

#[path = "/verif/kani/common/sym.rs"]
pub mod sym;

#[cfg(test)]
mod playback {
    use super::*;
    include!("/verif/.work/playback/scanner.rs");
}

pub const MAXTOK: usize = 12;

/// Token kinds of an injected token sequence.
pub mod tk {
    pub const STREAM_START: u8 = 0;
    pub const STREAM_END: u8 = 1;
    pub const VERSION_DIRECTIVE: u8 = 2;
    pub const TAG_DIRECTIVE: u8 = 3;
    pub const DOCUMENT_START: u8 = 4;
    pub const DOCUMENT_END: u8 = 5;
    pub const BLOCK_SEQUENCE_START: u8 = 6;
    pub const BLOCK_MAPPING_START: u8 = 7;
    pub const BLOCK_END: u8 = 8;
    pub const FLOW_SEQUENCE_START: u8 = 9;
    pub const FLOW_SEQUENCE_END: u8 = 10;
    pub const FLOW_MAPPING_START: u8 = 11;
    pub const FLOW_MAPPING_END: u8 = 12;
    pub const BLOCK_ENTRY: u8 = 13;
    pub const FLOW_ENTRY: u8 = 14;
    pub const KEY: u8 = 15;
    pub const VALUE: u8 = 16;
    pub const ALIAS: u8 = 17;
    pub const ANCHOR: u8 = 18;
    pub const TAG: u8 = 19;
    pub const SCALAR: u8 = 20;
    pub const COUNT: u8 = 21;
}

/// A token sequence handed to the parser instead of scanning. `kinds[i]` is a `tk::*` code,
/// `payload[i]` selects among a few fixed strings for tokens that carry text. After the last token
/// the (pretend) scanner reports an error, which is what a real scanner does when it cannot go on;
/// a sequence containing `STREAM_END` ends the stream there.
#[derive(Debug)]
pub struct Inject {
    pub kinds: [u8; MAXTOK],
    pub payload: [u8; MAXTOK],
    pub len: usize,
    pub pos: usize,
    /// Concrete bit mask of the token kinds this sequence may contain (bit k = kind k). Arms of
    /// `make` for excluded kinds are guarded by this constant, so the symbolic execution prunes
    /// them (an `assume` on the symbolic kind alone does not stop CBMC from exploring the arm).
    pub mask: u32,
}
pub const MASK_ALL: u32 = (1 << 21) - 1;
pub const MASK_NO_TAGS: u32 = MASK_ALL & !(1 << 19) & !(1 << 3);

pub const NAMES: [&str; 3] = ["a", "b", "c"];
/// (handle, prefix) pairs for %TAG directives.
pub const DIRECTIVES: [(&str, &str); 4] = [("!a!", "p1:"), ("!b!", "p2:"), ("!!", "p3:"), ("!", "p4:")];
/// (handle, suffix) pairs for node tags as the scanner reports them.
pub const TAGS: [(&str, &str); 7] =
    [("!!", "s"), ("!a!", "s"), ("!b!", "s"), ("!c!", "s"), ("!", "s"), ("", "v"), ("", "!")];

impl Inject {
    pub fn token_span(i: usize) -> Span {
        // token i occupies [3i+1, 3i+3): ordered, disjoint, non-empty, line 1
        Span::new(Marker::new(3 * i + 1, 1, 3 * i + 1), Marker::new(3 * i + 3, 1, 3 * i + 3))
    }
    pub fn make<'a>(kind: u8, payload: u8, i: usize, mask: u32) -> Token<'a> {
        let p = payload as usize;
        let tt = match kind {
            tk::STREAM_START => TokenType::StreamStart(TEncoding::Utf8),
            tk::STREAM_END => TokenType::StreamEnd,
            tk::VERSION_DIRECTIVE => TokenType::VersionDirective(1, 2),
            tk::TAG_DIRECTIVE if mask & (1 << 3) != 0 => {
                let (h, pre) = DIRECTIVES[p % DIRECTIVES.len()];
                TokenType::TagDirective(Cow::Borrowed(h), Cow::Borrowed(pre))
            }
            tk::DOCUMENT_START => TokenType::DocumentStart,
            tk::DOCUMENT_END => TokenType::DocumentEnd,
            tk::BLOCK_SEQUENCE_START => TokenType::BlockSequenceStart,
            tk::BLOCK_MAPPING_START => TokenType::BlockMappingStart,
            tk::BLOCK_END => TokenType::BlockEnd,
            tk::FLOW_SEQUENCE_START => TokenType::FlowSequenceStart,
            tk::FLOW_SEQUENCE_END => TokenType::FlowSequenceEnd,
            tk::FLOW_MAPPING_START => TokenType::FlowMappingStart,
            tk::FLOW_MAPPING_END => TokenType::FlowMappingEnd,
            tk::BLOCK_ENTRY => TokenType::BlockEntry,
            tk::FLOW_ENTRY => TokenType::FlowEntry,
            tk::KEY => TokenType::Key,
            tk::VALUE => TokenType::Value,
            tk::ALIAS if mask & (1 << 17) != 0 => TokenType::Alias(Cow::Borrowed(NAMES[p % NAMES.len()])),
            tk::ANCHOR if mask & (1 << 18) != 0 => TokenType::Anchor(Cow::Borrowed(NAMES[p % NAMES.len()])),
            tk::TAG if mask & (1 << 19) != 0 => {
                let (h, s) = TAGS[p % TAGS.len()];
                TokenType::Tag(String::from(h), String::from(s))
            }
            _ => TokenType::Scalar(ScalarStyle::Plain, Cow::Borrowed(NAMES[p % NAMES.len()])),
        };
        Token(Self::token_span(i), tt)
    }
}

impl<'input, T: Input> Scanner<'input, T> {
    /// Set the stream flags the parser's `load` observes (harness set-up of a mid-stream state).
    pub(crate) fn verif_set_stream_flags(&mut self, started: bool, ended: bool) {
        self.stream_start_produced = started;
        self.stream_end_produced = ended;
    }
    /// Replacement for the scanning part of `next_token` when a token sequence is injected. Keeps
    /// the scanner-side bookkeeping the parser observes (`stream_started`, `stream_ended`,
    /// `mark`, `tokens_parsed`).
    pub(crate) fn verif_next_injected(&mut self) -> Result<Option<Token<'input>>, ScanError> {
        let inj = self.verif_inject.as_mut().unwrap();
        if inj.pos >= inj.len {
            return Err(ScanError::new_str(self.mark, "injected: scanner error"));
        }
        let i = inj.pos;
        inj.pos += 1;
        let t = Inject::make(inj.kinds[i], inj.payload[i], i, inj.mask);
        self.tokens_parsed += 1;
        self.mark = t.0.end;
        match t.1 {
            TokenType::StreamStart(_) => self.stream_start_produced = true,
            TokenType::StreamEnd => self.stream_end_produced = true,
            _ => {}
        }
        Ok(Some(t))
    }
}

// ------------------------------------------------------------------------------------------------
// Scanner unit harnesses (mode D: real Scanner<StrInput> over a symbolic ASCII text).
// ------------------------------------------------------------------------------------------------

pub const MAXT: usize = 12;

/// Symbolic text of exactly `n` chars, each chosen from `alphabet` (concrete table, symbolic index).
fn sym_text(buf: &mut [u8; MAXT], n: usize, alphabet: &[u8]) {
    let mut i = 0;
    while i < n {
        let k: u8 = kani::any();
        kani::assume((k as usize) < alphabet.len());
        buf[i] = alphabet[k as usize];
        i += 1;
    }
}

fn as_str<'a>(buf: &'a [u8; MAXT], n: usize, label: &str) -> &'a str {
    sym::note_bytes(label, &buf[..n]);
    unsafe { std::str::from_utf8_unchecked(&buf[..n]) }
}

/// Reference position arithmetic (C12): advance `(index, line, col)` over the ASCII bytes
/// `text[..n]`; CR LF, lone CR and LF each count as one line break.
fn ref_advance(index: usize, line: usize, col: usize, text: &[u8], n: usize) -> (usize, usize, usize) {
    let (mut ix, mut ln, mut co) = (index, line, col);
    let mut i = 0;
    while i < n {
        let b = text[i];
        ix += 1;
        if b == b'\n' {
            ln += 1;
            co = 0;
        } else if b == b'\r' {
            if i + 1 < n && text[i + 1] == b'\n' {
                // CR of a CR LF pair: the LF ends the line
                co += 1;
            } else {
                ln += 1;
                co = 0;
            }
        } else {
            co += 1;
        }
        i += 1;
    }
    (ix, ln, co)
}

fn sym_mark() -> Marker {
    let i: usize = kani::any();
    let l: usize = kani::any();
    let c: usize = kani::any();
    kani::assume(i < 1000 && l >= 1 && l < 1000 && c < 1000);
    Marker::new(i, l, c)
}

/// Pos invariant: the scanner's mark is the start mark advanced over exactly the consumed text.
fn pos_holds(sc: &Scanner<'_, StrInput<'_>>, m0: Marker, text: &[u8], n: usize) -> bool {
    let consumed = n - sc.input.verif_remaining();
    let (ix, ln, co) = ref_advance(m0.index(), m0.line(), m0.col(), text, consumed);
    sc.mark.index() == ix && sc.mark.line() == ln && sc.mark.col() == co
}

const WS_ALPHABET: [u8; 7] = [b' ', b'\t', b'\n', b'\r', b'#', b'a', b':'];
const WS_ALPHABET_NOCR: [u8; 6] = [b' ', b'\t', b'\n', b'#', b'a', b':'];

/// Scanner context for whitespace skipping: 0 top level, 1 inside an indented block (indent 2),
/// 2 inside a flow collection.
fn set_context(sc: &mut Scanner<'_, StrInput<'_>>, ctx: u8) {
    sc.stream_start_produced = true;
    match ctx {
        0 => {}
        1 => {
            sc.indents.push(Indent { indent: -1, needs_block_end: false });
            sc.indents.push(Indent { indent: 0, needs_block_end: true });
            sc.indent = 2;
        }
        _ => {
            sc.flow_level = 1;
        }
    }
}

/// C12/C14: skip_linebreak consumes exactly one line break of any style and advances one line.
#[kani::proof]
#[kani::unwind(6)]
pub fn c12_skip_linebreak() {
    let mut buf = [0u8; MAXT];
    let n: usize = kani::any();
    kani::assume(n <= 3);
    sym_text(&mut buf, 3, &WS_ALPHABET);
    let s = as_str(&buf, n, "text");
    let mut sc = Scanner::new(StrInput::new(s));
    let m0 = sym_mark();
    sc.mark = m0;
    sc.input.lookahead(2);
    sc.skip_linebreak();
    assert!(pos_holds(&sc, m0, &buf, n), "C12: mark is not the position of the consumed text after skip_linebreak");
    let consumed = n - sc.input.verif_remaining();
    if n >= 2 && buf[0] == b'\r' && buf[1] == b'\n' {
        assert!(consumed == 2 && sc.mark.line() == m0.line() + 1 && sc.mark.col() == 0, "C14: CR LF is not consumed as one break");
    } else if n >= 1 && (buf[0] == b'\n' || buf[0] == b'\r') {
        assert!(consumed == 1 && sc.mark.line() == m0.line() + 1 && sc.mark.col() == 0, "C14: LF / CR is not consumed as one break");
    } else {
        assert!(consumed == 0, "C12: skip_linebreak consumed a non-break");
    }
    kani::cover!(consumed == 2, "must: crlf consumed");
    std::mem::forget(sc);
}

/// C12/C14: skip_break / read_break under their precondition (next char is a break).
#[kani::proof]
#[kani::unwind(6)]
pub fn c12_skip_break_read_break() {
    let mut buf = [0u8; MAXT];
    let n: usize = kani::any();
    kani::assume(n >= 1 && n <= 3);
    sym_text(&mut buf, 3, &WS_ALPHABET);
    kani::assume(buf[0] == b'\n' || buf[0] == b'\r');
    let s = as_str(&buf, n, "text");
    let mut sc = Scanner::new(StrInput::new(s));
    let m0 = sym_mark();
    sc.mark = m0;
    sc.input.lookahead(2);
    let read: bool = kani::any();
    let mut out = String::new();
    if read {
        sc.read_break(&mut out);
        assert!(out.len() == 1 && out.as_bytes()[0] == b'\n', "C14: a line break is not reported as a line feed");
    } else {
        sc.skip_break();
    }
    assert!(pos_holds(&sc, m0, &buf, n), "C12: mark is not the position of the consumed text after skip_break");
    let consumed = n - sc.input.verif_remaining();
    let want = if n >= 2 && buf[0] == b'\r' && buf[1] == b'\n' { 2 } else { 1 };
    assert!(consumed == want && sc.mark.line() == m0.line() + 1 && sc.mark.col() == 0, "C14: break not consumed as exactly one line break");
    kani::cover!(consumed == 2 && read, "must: crlf read");
    std::mem::forget(out);
    std::mem::forget(sc);
}

/// C12 (+C06 tab rule): skip_to_next_token / skip_yaml_whitespace keep the Pos invariant on every
/// text of up to N chars over the whitespace alphabet, in three contexts; they stop only at a
/// character that is not whitespace / a comment.
fn ws_unit<const N: usize>(which: u8, ctx: u8) {
    let mut buf = [0u8; MAXT];
    let n: usize = kani::any();
    kani::assume(n <= N);
    sym_text(&mut buf, N, &WS_ALPHABET);
    let s = as_str(&buf, n, "text");
    let mut sc = Scanner::new(StrInput::new(s));
    set_context(&mut sc, ctx);
    let lw: bool = kani::any();
    sc.leading_whitespace = lw;
    let m0 = Marker::new(0, 1, 0);
    let r = if which == 0 { sc.skip_to_next_token() } else { sc.skip_yaml_whitespace() };
    assert!(pos_holds(&sc, m0, &buf, n), "C12: mark is not the position of the consumed text after skipping whitespace");
    let rem = sc.input.verif_remaining();
    if r.is_ok() {
        if rem > 0 {
            let c = buf[n - rem];
            let stops = if which == 0 { c == b'a' || c == b':' } else { c == b'a' || c == b':' || c == b'\t' };
            assert!(stops, "C12: whitespace skipping stopped before a character it should have skipped");
        }
    } else if which == 0 {
        // the only error: a tab used as block indentation followed by content
        assert!(ctx == 1, "C06: tab error outside of a block context");
    }
    kani::cover!(r.is_ok() && n - rem == N && N > 0, "must: whole text skipped");
    kani::cover!(r.is_err(), "error reached");
    std::mem::forget(r);
    std::mem::forget(sc);
}
macro_rules! ws_harness {
    ($name:ident, $n:expr, $which:expr, $ctx:expr, $unw:expr) => {
        #[kani::proof]
        #[kani::unwind($unw)]
        pub fn $name() {
            ws_unit::<$n>($which, $ctx);
        }
    };
}
ws_harness!(c12_skip_to_next_token_top_2, 2, 0, 0, 5);
ws_harness!(c12_skip_to_next_token_block_2, 2, 0, 1, 5);
ws_harness!(c12_skip_to_next_token_flow_2, 2, 0, 2, 5);
ws_harness!(c12_skip_yaml_whitespace_top_2, 2, 1, 0, 5);
ws_harness!(c12_skip_to_next_token_top_3, 3, 0, 0, 6);
ws_harness!(c12_skip_to_next_token_block_3, 3, 0, 1, 6);
ws_harness!(c12_skip_to_next_token_flow_3, 3, 0, 2, 6);
ws_harness!(c12_skip_yaml_whitespace_top_3, 3, 1, 0, 6);
ws_harness!(c12_skip_to_next_token_top_4, 4, 0, 0, 7);
ws_harness!(c12_skip_to_next_token_block_4, 4, 0, 1, 7);

/// Concrete-shape variant of the differential (the fully symbolic one, two scanners over texts of
/// symbolic length, did not finish for N = 2 in 1200 s): the POSITIONS of the line feeds in a text
/// of 2 characters and the substitution are harness parameters, the other characters are symbolic.
fn ws_break_shape(which: u8, ctx: u8, lf0: bool, lf1: bool, crlf: bool) {
    const OTHER: [u8; 5] = [b' ', b'\t', b'#', b'a', b':'];
    let mut x = [0u8; MAXT];
    let mut y = [0u8; MAXT];
    let mut m = 0;
    let shape = [lf0, lf1];
    let mut i = 0;
    while i < 2 {
        if shape[i] {
            x[i] = b'\n';
            y[m] = b'\r';
            m += 1;
            if crlf {
                y[m] = b'\n';
                m += 1;
            }
        } else {
            let k: u8 = kani::any();
            kani::assume(k < 5);
            x[i] = OTHER[k as usize];
            y[m] = x[i];
            m += 1;
        }
        i += 1;
    }
    let sx = as_str(&x, 2, "lf_text");
    let sy = as_str(&y, m, "substituted_text");
    let mut a = Scanner::new(StrInput::new(sx));
    let mut b = Scanner::new(StrInput::new(sy));
    set_context(&mut a, ctx);
    set_context(&mut b, ctx);
    let (ra, rb) = if which == 0 {
        (a.skip_to_next_token(), b.skip_to_next_token())
    } else {
        (a.skip_yaml_whitespace(), b.skip_yaml_whitespace())
    };
    assert!(ra.is_ok() == rb.is_ok(), "C14: line-break style changes success/failure");
    assert!(a.mark.line() == b.mark.line() && a.mark.col() == b.mark.col(), "C14: line-break style changes the reported line/column");
    let (rema, remb) = (a.input.verif_remaining(), b.input.verif_remaining());
    assert!((rema == 0) == (remb == 0), "C14: line-break style changes where skipping stops");
    if rema > 0 && remb > 0 {
        assert!(x[2 - rema] == y[m - remb], "C14: line-break style changes the character skipping stops at");
    }
    assert!(a.simple_key_allowed == b.simple_key_allowed, "C14: line-break style changes simple-key state");
    kani::cover!(true, "must: compared");
    std::mem::forget((ra, rb));
    std::mem::forget((a, b));
}
macro_rules! ws_shape_harness {
    ($name:ident, $which:expr, $ctx:expr, $lf0:expr, $lf1:expr, $crlf:expr) => {
        #[kani::proof]
        #[kani::unwind(7)]
        pub fn $name() {
            ws_break_shape($which, $ctx, $lf0, $lf1, $crlf);
        }
    };
}
// skip_to_next_token: LF first / LF second / two LFs, CRLF and CR, top-level and block contexts
ws_shape_harness!(c14_next_token_lf_o_crlf_top, 0, 0, true, false, true);
ws_shape_harness!(c14_next_token_lf_lf_crlf_top, 0, 0, true, true, true);
ws_shape_harness!(c14_next_token_lf_lf_cr_flow, 0, 2, true, true, false);
// skip_yaml_whitespace (after '?')
ws_shape_harness!(c14_yaml_ws_lf_o_crlf_top, 1, 0, true, false, true);
ws_shape_harness!(c14_yaml_ws_lf_o_cr_top, 1, 0, true, false, false);
ws_shape_harness!(c14_yaml_ws_o_lf_crlf_flow, 1, 2, false, true, true);
ws_shape_harness!(c14_yaml_ws_o_lf_cr_top, 1, 0, false, true, false);
ws_shape_harness!(c14_yaml_ws_lf_lf_cr_top, 1, 0, true, true, false);
ws_shape_harness!(c14_yaml_ws_lf_lf_crlf_flow, 1, 2, true, true, true);
ws_shape_harness!(c14_next_token_lf_lf_cr_block, 0, 1, true, true, false);

/// C04: every double-quoted escape decodes to the code point the YAML 1.2 table gives it; \x, \u,
/// \U decode their hex digits; anything else is an error. Text after the backslash is symbolic.
fn ref_named_escape(c: u8) -> Option<u32> {
    Some(match c {
        b'0' => 0x00,
        b'a' => 0x07,
        b'b' => 0x08,
        b't' | b'\t' => 0x09,
        b'n' => 0x0A,
        b'v' => 0x0B,
        b'f' => 0x0C,
        b'r' => 0x0D,
        b'e' => 0x1B,
        b' ' => 0x20,
        b'"' => 0x22,
        b'/' => 0x2F,
        b'\\' => 0x5C,
        b'N' => 0x85,
        b'_' => 0xA0,
        b'L' => 0x2028,
        b'P' => 0x2029,
        _ => return None,
    })
}
fn ref_hex(b: u8) -> Option<u32> {
    match b {
        b'0'..=b'9' => Some((b - b'0') as u32),
        b'a'..=b'f' => Some((b - b'a' + 10) as u32),
        b'A'..=b'F' => Some((b - b'A' + 10) as u32),
        _ => None,
    }
}

fn escape_sequences(maxlen: usize) {
    let mut buf = [0u8; MAXT];
    buf[0] = b'\\';
    // escape character: any ASCII byte 1..=126
    let e: u8 = kani::any();
    kani::assume(e >= 1 && e < 0x7F);
    buf[1] = e;
    let mut i = 2;
    while i < 10 {
        let h: u8 = kani::any();
        kani::assume(h >= 0x20 && h < 0x7F);
        buf[i] = h;
        i += 1;
    }
    let n: usize = kani::any();
    kani::assume(n >= 2 && n <= maxlen);
    let s = as_str(&buf, n, "text");
    let mut sc = Scanner::new(StrInput::new(s));
    let m0 = sym_mark();
    sc.mark = m0;
    sc.input.lookahead(2);
    let start = m0;
    let r = sc.resolve_flow_scalar_escape_sequence(&start);
    let digits = match e {
        b'x' => 2,
        b'u' => 4,
        b'U' => 8,
        _ => 0,
    };
    if digits == 0 {
        match ref_named_escape(e) {
            Some(cp) => match &r {
                Ok(c) => {
                    assert!(*c as u32 == cp, "C04: named escape decodes to the wrong code point");
                    assert!(n - sc.input.verif_remaining() == 2 && sc.mark.index() == m0.index() + 2 && sc.mark.col() == m0.col() + 2, "C12: escape consumed the wrong amount of input");
                }
                Err(_) => assert!(false, "C04: a YAML 1.2 escape is rejected"),
            },
            None => assert!(r.is_err(), "C06: unknown escape character accepted"),
        }
    } else {
        let mut value: u64 = 0;
        let mut ok = true;
        let mut k = 0;
        while k < 8 {
            if k < digits {
                if 2 + k >= n {
                    ok = false;
                } else {
                    match ref_hex(buf[2 + k]) {
                        Some(v) => value = value * 16 + v as u64,
                        None => ok = false,
                    }
                }
            }
            k += 1;
        }
        let scalar = ok && value <= 0x10FFFF && !(value >= 0xD800 && value <= 0xDFFF);
        match &r {
            Ok(c) => {
                assert!(scalar, "C06: truncated or invalid hexadecimal escape accepted");
                assert!(*c as u64 == value, "C04: hexadecimal escape decodes to the wrong code point");
                assert!(n - sc.input.verif_remaining() == 2 + digits && sc.mark.index() == m0.index() + 2 + digits, "C12: escape consumed the wrong amount of input");
            }
            Err(_) => assert!(!scalar, "C04: a valid hexadecimal escape is rejected"),
        }
        kani::cover!(digits == 8 && r.is_ok(), "\\U escape decoded");
        kani::cover!(digits == 4 && r.is_err(), "must: bad \\u escape rejected");
    }
    kani::cover!(e == b'P' && r.is_ok(), "must: \\P decoded");
    std::mem::forget(r);
    std::mem::forget(sc);
}
/// `\` + escape char + up to 4 more characters: the whole named table, \x and \u.
#[kani::proof]
#[kani::unwind(12)]
pub fn c04_escape_sequences_short() {
    escape_sequences(6);
}
/// up to 8 more characters: \U as well.
#[kani::proof]
#[kani::unwind(12)]
pub fn c04_escape_sequences() {
    escape_sequences(10);
}

// ------------------------------------------------------------------------------------------------
// C01 units
// ------------------------------------------------------------------------------------------------

/// Flow nesting: one step from EVERY flow level: error exactly at 255, never wraps (so the counter
/// bounds flow nesting for histories of any length).
#[kani::proof]
#[kani::unwind(4)]
pub fn c01_increase_flow_level() {
    let mut sc = Scanner::new(StrInput::new(""));
    let lvl: u8 = kani::any();
    sc.flow_level = lvl;
    let r = sc.increase_flow_level();
    if lvl == 255 {
        assert!(r.is_err(), "C01: flow level wrapped instead of reporting the recursion limit");
        assert!(sc.flow_level == 255, "C01: flow level changed on error");
    } else {
        assert!(r.is_ok() && sc.flow_level == lvl + 1, "C01: flow level not incremented");
    }
    kani::cover!(r.is_err(), "must: recursion limit reached");
    std::mem::forget(r);
    std::mem::forget(sc);
}

// ------------------------------------------------------------------------------------------------
// More scanner units with a concrete shape and symbolic contents
// ------------------------------------------------------------------------------------------------

/// C14/C04: an escaped line break inside a double-quoted scalar consumes the backslash and exactly
/// one break of ANY style (LF, CR LF, lone CR), adds nothing to the text and starts a new line.
fn escaped_line_break(style: u8) {
    let mut buf = [0u8; MAXT];
    buf[0] = b'\\';
    let mut n = 1;
    match style {
        0 => {
            buf[1] = b'\n';
            n = 2;
        }
        1 => {
            buf[1] = b'\r';
            buf[2] = b'\n';
            n = 3;
        }
        _ => {
            buf[1] = b'\r';
            n = 2;
        }
    }
    let brk = n;
    let next: u8 = kani::any();
    kani::assume(next == b'b' || next == b' ' || next == b'"' || next == b'\n');
    // a lone CR followed by LF would be a CR LF pair (covered by the crlf harness)
    kani::assume(!(style == 2 && next == b'\n'));
    buf[n] = next;
    n += 1;
    let s = as_str(&buf, n, "text");
    let mut sc = Scanner::new(StrInput::new(s));
    let m0 = sym_mark();
    sc.mark = m0;
    let mut string = String::with_capacity(8);
    let mut leading_blanks = false;
    let start = m0;
    let r = sc.consume_flow_scalar_non_whitespace_chars(false, &mut string, &mut leading_blanks, &start);
    assert!(r.is_ok(), "C04: escaped line break rejected");
    assert!(n - sc.input.verif_remaining() == brk, "C14: an escaped line break did not consume exactly the backslash and one break");
    assert!(sc.mark.line() == m0.line() + 1 && sc.mark.col() == 0 && sc.mark.index() == m0.index() + brk, "C14: position after an escaped line break depends on the break style");
    assert!(string.is_empty() && leading_blanks, "C04: an escaped line break added text or did not start line folding");
    kani::cover!(true, "must: compared");
    std::mem::forget(r);
    std::mem::forget(string);
    std::mem::forget(sc);
}
// the break style is a harness parameter: with a symbolic style the first character pair is
// symbolic and the symbolic execution explores the whole escape decoder and the push paths
#[kani::proof]
#[kani::unwind(6)]
pub fn c14_escaped_line_break_lf() {
    escaped_line_break(0);
}
#[kani::proof]
#[kani::unwind(6)]
pub fn c14_escaped_line_break_crlf() {
    escaped_line_break(1);
}
#[kani::proof]
#[kani::unwind(6)]
pub fn c14_escaped_line_break_cr() {
    escaped_line_break(2);
}

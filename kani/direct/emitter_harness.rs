//! Kani harnesses compiled inside `saphyr::emitter` as a child module (sees private items).
//! C09 (scalar-string half of the round trip): a string the emitter writes plain resolves back to the
//! same string; a string it writes double-quoted decodes back to itself.
#![allow(dead_code, unused_imports, clippy::all)]
use super::*;
use crate::Scalar;
use std::borrow::Cow;

#[path = "/verif/kani/common/sym.rs"]
pub mod sym;

#[cfg(test)]
mod playback {
    use super::*;
    include!("/verif/.work/playback/emitter.rs");
}

#[path = "/verif/kani/common/f64_stub.rs"]
pub mod f64_stub;
use f64_stub::f64_from_str_stub;

/// The property's 20-symbol alphabet for strings: indicators, blanks, quotes, digits and the
/// letters of type-like words.
const STR_ALPHABET: [u8; 24] = [
    b'0', b'1', b'7', b'x', b'o', b'e', b'.', b'+', b'-', b'~', b'n', b'u', b'l', b't', b'r', b'f', b'a', b's', b'i', b'N', b'_', b'E', b'y', b'I',
];

fn plain_lemma<const N: usize>() {
    let mut buf = [0u8; N];
    let n: usize = kani::any();
    kani::assume(n <= N);
    let mut i = 0;
    while i < N {
        let k: u8 = kani::any();
        kani::assume((k as usize) < STR_ALPHABET.len());
        buf[i] = STR_ALPHABET[k as usize];
        i += 1;
    }
    sym::note_bytes("string", &buf[..n]);
    let s = unsafe { std::str::from_utf8_unchecked(&buf[..n]) };
    if !need_quotes(s) {
        kani::cover!(n == N, "must: an unquoted string of full length reached");
        let r = Scalar::parse_from_cow(Cow::Borrowed(s));
        match &r {
            Scalar::String(x) => assert!(x.len() == n, "C09: text changed"),
            _ => assert!(false, "C09: a string the emitter writes without quotes loads back as another type"),
        }
        std::mem::forget(r);
    }
}

#[kani::proof]
#[kani::unwind(26)]
#[kani::stub(<f64 as std::str::FromStr>::from_str, f64_from_str_stub)]
pub fn c09_unquoted_strings_resolve_as_strings_3() {
    plain_lemma::<3>();
}
#[kani::proof]
#[kani::unwind(26)]
#[kani::stub(<f64 as std::str::FromStr>::from_str, f64_from_str_stub)]
pub fn c09_unquoted_strings_resolve_as_strings_4() {
    plain_lemma::<4>();
}
#[kani::proof]
#[kani::unwind(26)]
#[kani::stub(<f64 as std::str::FromStr>::from_str, f64_from_str_stub)]
pub fn c09_unquoted_strings_resolve_as_strings_5() {
    plain_lemma::<5>();
}

/// `core::str::slice_error_fail` computes a truncated copy of the string and char ranges for its
/// panic message before panicking; only the panic matters here.
fn slice_error_fail_stub(_s: &str, _begin: usize, _end: usize) -> ! {
    panic!("str slice index is not on a character boundary or out of range")
}

/// Fixed-capacity sink for `escape_str`.
struct Sink {
    b: [u8; 16],
    n: usize,
}
impl fmt::Write for Sink {
    fn write_str(&mut self, s: &str) -> fmt::Result {
        let bytes = s.as_bytes();
        let mut i = 0;
        while i < bytes.len() {
            if self.n >= 16 {
                return Err(fmt::Error);
            }
            self.b[self.n] = bytes[i];
            self.n += 1;
            i += 1;
        }
        Ok(())
    }
}

fn hexv(b: u8) -> Option<u32> {
    match b {
        b'0'..=b'9' => Some((b - b'0') as u32),
        b'a'..=b'f' => Some((b - b'a' + 10) as u32),
        b'A'..=b'F' => Some((b - b'A' + 10) as u32),
        _ => None,
    }
}

/// Reference decoder for a one-line double-quoted scalar (YAML 1.2 escapes the emitter may use; any
/// other escape or a raw control character is rejected). Writes bytes into `out`.
fn ref_decode_dq(text: &[u8], out: &mut [u8; 16]) -> Option<usize> {
    let n = text.len();
    if n < 2 || text[0] != b'"' || text[n - 1] != b'"' {
        return None;
    }
    let mut i = 1;
    let mut m = 0;
    while i < n - 1 {
        let b = text[i];
        if b == b'"' || b < 0x20 || b == 0x7f {
            return None;
        }
        if b == b'\\' {
            if i + 1 >= n - 1 {
                return None;
            }
            let e = text[i + 1];
            let v: u32 = match e {
                b'"' => 0x22,
                b'\\' => 0x5c,
                b'b' => 0x08,
                b't' => 0x09,
                b'n' => 0x0a,
                b'f' => 0x0c,
                b'r' => 0x0d,
                b'u' => {
                    if i + 5 >= n - 1 {
                        return None;
                    }
                    let mut v = 0;
                    let mut k = 0;
                    while k < 4 {
                        match hexv(text[i + 2 + k]) {
                            Some(h) => v = v * 16 + h,
                            None => return None,
                        }
                        k += 1;
                    }
                    i += 4;
                    v
                }
                _ => return None,
            };
            if v >= 0x80 {
                return None; // the emitter only escapes ASCII
            }
            if m >= 16 {
                return None;
            }
            out[m] = v as u8;
            m += 1;
            i += 2;
        } else {
            if m >= 16 {
                return None;
            }
            out[m] = b;
            m += 1;
            i += 1;
        }
    }
    Some(m)
}

/// escape_str output is a one-line double-quoted scalar that decodes back to the input, for every
/// valid UTF-8 string of up to 3 characters (all ASCII incl. every control character, and 2-byte
/// characters).
fn escape_roundtrip(maxchars: usize) {
    let mut buf = [0u8; 6];
    let mut n = 0;
    let count: usize = kani::any();
    kani::assume(count <= maxchars);
    let mut i = 0;
    while i < 3 {
        if i < count {
            let c: u32 = kani::any();
            kani::assume(c < 0x800);
            if c < 0x80 {
                buf[n] = c as u8;
                n += 1;
            } else {
                buf[n] = 0xC0 | (c >> 6) as u8;
                buf[n + 1] = 0x80 | (c & 0x3F) as u8;
                n += 2;
            }
        }
        i += 1;
    }
    sym::note_bytes("string", &buf[..n]);
    let s = unsafe { std::str::from_utf8_unchecked(&buf[..n]) };
    let mut sink = Sink { b: [0u8; 16], n: 0 };
    let r = escape_str(&mut sink, s);
    if r.is_err() {
        // the fixed-size sink is full: outside this harness's bound (only with 3 characters that
        // all need a 6-byte escape)
        return;
    }
    let mut out = [0u8; 16];
    let d = ref_decode_dq(&sink.b[..sink.n], &mut out);
    assert!(d.is_some(), "C09: escape_str wrote something that is not a one-line double-quoted scalar");
    let m = d.unwrap();
    assert!(m == n, "C09: escaped string decodes to a different length");
    let mut j = 0;
    while j < 6 {
        if j < n {
            assert!(out[j] == buf[j], "C09: escaped string decodes to different text");
        }
        j += 1;
    }
    kani::cover!(sink.n >= 8, "must: a unicode escape written");
}

#[kani::proof]
#[kani::unwind(10)]
#[kani::stub(core::str::slice_error_fail, slice_error_fail_stub)]
pub fn c09_escape_str_roundtrip_1() {
    escape_roundtrip(1);
}
#[kani::proof]
#[kani::unwind(18)]
#[kani::stub(core::str::slice_error_fail, slice_error_fail_stub)]
pub fn c09_escape_str_roundtrip_2() {
    escape_roundtrip(2);
}
#[kani::proof]
#[kani::unwind(18)]
#[kani::stub(core::str::slice_error_fail, slice_error_fail_stub)]
pub fn c09_escape_str_roundtrip_3() {
    escape_roundtrip(3);
}

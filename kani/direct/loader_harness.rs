//! Kani harnesses compiled inside `saphyr::loader` as a child module.
//! None: the loader's `on_event` does not finish under Kani (recursive derived Clone/Eq/Hash/Drop of
//! the tree type plus the mapping type), neither with the real hashlink map nor with an
//! association-list model (see kani/attic/ and DESIGN.md section 1). C07 is not applicable.
#![allow(dead_code, unused_imports, clippy::all)]

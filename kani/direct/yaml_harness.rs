//! Kani harnesses compiled inside `saphyr::yaml` as a child module (sees private items).
//! C20: the hash recomputed for a `&str` probe equals the hash of the stored string key for every
//! hasher (hash-trace equality), and the lookup predicate finds exactly resolved-string keys.
#![allow(dead_code, unused_imports, clippy::all)]
use super::*;
use std::hash::{Hash, Hasher};

#[path = "/verif/kani/common/sym.rs"]
pub mod sym;
#[path = "/verif/kani/common/rec_hasher.rs"]
pub mod rec_hasher;
// a change that makes the lookup code reach the scalar resolver must stay decidable
#[path = "/verif/kani/common/f64_stub.rs"]
pub mod f64_stub;
use f64_stub::f64_from_str_stub;
use rec_hasher::Rec;

#[cfg(test)]
mod playback {
    use super::*;
    include!("/verif/.work/playback/yaml.rs");
}

const KEY_ALPHABET: [u8; 12] = [b'a', b'b', b'1', b'0', b'x', b'~', b'.', b'-', b't', b'r', b'u', b'e'];

fn sym_key<const N: usize>(buf: &mut [u8; N]) -> usize {
    let n: usize = kani::any();
    kani::assume(n <= N);
    let mut i = 0;
    while i < N {
        let k: u8 = kani::any();
        kani::assume((k as usize) < KEY_ALPHABET.len());
        buf[i] = KEY_ALPHABET[k as usize];
        i += 1;
    }
    n
}

/// Hash-trace equality: `hash_str_as_yaml_string(k, h)` writes to `h` exactly what hashing the
/// stored key `Yaml::Value(Scalar::String(k))` writes, borrowed or owned.
#[kani::proof]
#[kani::unwind(12)]
#[kani::stub(<f64 as std::str::FromStr>::from_str, f64_from_str_stub)]
pub fn c20_hash_trace_yaml() {
    let mut buf = [0u8; 4];
    let n = sym_key(&mut buf);
    sym::note_bytes("key", &buf[..n]);
    let k = unsafe { std::str::from_utf8_unchecked(&buf[..n]) };
    let mut probe = Rec::new();
    let _ = hash_str_as_yaml_string(k, &mut probe);
    let stored_b = Yaml::Value(Scalar::String(Cow::Borrowed(k)));
    let mut hb = Rec::new();
    stored_b.hash(&mut hb);
    let stored_o = Yaml::Value(Scalar::String(Cow::Owned(String::from(k))));
    let mut ho = Rec::new();
    stored_o.hash(&mut ho);
    assert!(hb.same(&ho), "C20: borrowed and owned string nodes hash differently");
    assert!(probe.same(&hb), "C20: hash recomputed for a str probe differs from the hash of the stored string key");
    kani::cover!(n == 4, "must: four character key reached");
    std::mem::forget(stored_b);
    std::mem::forget(stored_o);
}

fn sym_style() -> ScalarStyle {
    let k: u8 = kani::any();
    kani::assume(k < 3);
    match k {
        0 => ScalarStyle::Plain,
        1 => ScalarStyle::DoubleQuoted,
        _ => ScalarStyle::Literal,
    }
}

/// An arbitrary small candidate key node whose text (if any) is `s`.
fn sym_node<'a>(s: &'a str) -> (Yaml<'a>, u8) {
    let v: u8 = kani::any();
    kani::assume(v < 9);
    let node = match v {
        0 => Yaml::Value(Scalar::String(Cow::Borrowed(s))),
        1 => Yaml::Value(Scalar::String(Cow::Owned(String::from(s)))),
        2 => Yaml::Value(Scalar::Integer(kani::any())),
        3 => Yaml::Value(Scalar::Null),
        4 => Yaml::Value(Scalar::Boolean(kani::any())),
        5 => Yaml::Representation(Cow::Borrowed(s), sym_style(), None),
        6 => Yaml::BadValue,
        7 => Yaml::Alias(kani::any()),
        _ => Yaml::Sequence(Vec::new()),
    };
    (node, v)
}

/// Predicate equivalence: the closure used by as_mapping_get / contains_mapping_key / Index<&str>
/// (`k.as_str().is_some_and(|s| s == key)`) accepts a candidate key exactly when the candidate
/// equals the explicitly built string node - i.e. exactly resolved-string keys equal to `key`.
#[kani::proof]
#[kani::unwind(8)]
pub fn c20_predicate_yaml() {
    let mut kb = [0u8; 3];
    let kn = sym_key(&mut kb);
    let mut cb = [0u8; 3];
    let cn = sym_key(&mut cb);
    sym::note_bytes("probe", &kb[..kn]);
    sym::note_bytes("candidate_text", &cb[..cn]);
    let key = unsafe { std::str::from_utf8_unchecked(&kb[..kn]) };
    let ctext = unsafe { std::str::from_utf8_unchecked(&cb[..cn]) };
    let (cand, v) = sym_node(ctext);
    if sym::playback() {
        eprintln!("VERIF-NOTE candidate_variant={}", v);
    }
    let pred = cand.as_str().is_some_and(|s| s == key);
    let needle = Yaml::Value(Scalar::String(Cow::Borrowed(key)));
    let eq = cand == needle;
    assert!(pred == eq, "C20: str lookup predicate and node equality disagree");
    let is_string_key = v <= 1 && cn == kn && {
        let mut same = true;
        let mut i = 0;
        while i < 3 {
            if i < kn && kb[i] != cb[i] {
                same = false;
            }
            i += 1;
        }
        same
    };
    assert!(pred == is_string_key, "C20: lookup finds something other than a resolved string key equal to the probe");
    kani::cover!(pred, "must: a matching key reached");
    kani::cover!(!pred && v == 5, "must: representation candidate reached");
    std::mem::forget(cand);
    std::mem::forget(needle);
}

//! Kani harnesses compiled inside `saphyr_parser::parser` as a child module (sees private items).
//! The parser state machine is driven by injected token sequences (see scanner_harness.rs).
#![allow(dead_code, unused_imports, clippy::all)]
use super::*;
use crate::input::str::StrInput;
use crate::scanner::verif_harness::{tk, Inject, MAXTOK};

#[path = "/verif/kani/common/sym.rs"]
pub mod sym;

#[cfg(test)]
mod playback {
    use super::*;
    include!("/verif/.work/playback/parser.rs");
}


// ------------------------------------------------------------------------------------------------
// Event-grammar monitor (C02) over an abstraction of the parser configuration.
//
// Frames, bottom first: Doc* then collection frames. A step of the parser (one call of `parse`)
// from ANY well-formed configuration must (1) not panic, (2) deliver an event the monitor accepts,
// (3) leave a well-formed configuration whose abstraction is the monitor's successor state.
// By induction over steps this gives the sentence property for token streams of any length.
// ------------------------------------------------------------------------------------------------

#[derive(Clone, Copy, PartialEq, Eq, Debug)]
pub enum Fr {
    DocNeed,
    DocDone,
    Seq,
    MapK,
    MapV,
}
#[derive(Clone, Copy, PartialEq, Eq, Debug)]
pub enum Phase {
    Pre,
    Between,
    InDoc,
    End,
    Bad,
}
pub const MAXFR: usize = 8;
#[derive(Clone, Copy, Debug)]
pub struct Abs {
    pub phase: Phase,
    pub fr: [Fr; MAXFR],
    pub n: usize,
}
impl Abs {
    fn new(phase: Phase) -> Abs {
        Abs { phase, fr: [Fr::Seq; MAXFR], n: 0 }
    }
    fn bad() -> Abs {
        Abs::new(Phase::Bad)
    }
    fn push(&mut self, f: Fr) {
        if self.n >= MAXFR {
            self.phase = Phase::Bad;
        } else {
            self.fr[self.n] = f;
            self.n += 1;
        }
    }
    fn same(&self, o: &Abs) -> bool {
        if self.phase != o.phase || self.n != o.n {
            return false;
        }
        let mut i = 0;
        while i < MAXFR {
            if i < self.n && self.fr[i] != o.fr[i] {
                return false;
            }
            i += 1;
        }
        true
    }
}
fn receive(f: Fr) -> Option<Fr> {
    match f {
        Fr::DocNeed => Some(Fr::DocDone),
        Fr::DocDone => None, // a second root node
        Fr::Seq => Some(Fr::Seq),
        Fr::MapK => Some(Fr::MapV),
        Fr::MapV => Some(Fr::MapK),
    }
}
fn unreceive(f: Fr) -> Fr {
    match f {
        Fr::DocDone => Fr::DocNeed,
        Fr::DocNeed => Fr::DocNeed,
        Fr::Seq => Fr::Seq,
        Fr::MapK => Fr::MapV,
        Fr::MapV => Fr::MapK,
    }
}

/// Monitor transition; `Phase::Bad` = the event is not allowed here.
pub fn monitor_step(a: &Abs, ev: &Event) -> Abs {
    let mut b = *a;
    match ev {
        Event::Nothing => return Abs::bad(),
        Event::StreamStart => {
            if a.phase != Phase::Pre {
                return Abs::bad();
            }
            b.phase = Phase::Between;
        }
        Event::StreamEnd => {
            if a.phase != Phase::Between {
                return Abs::bad();
            }
            b.phase = Phase::End;
        }
        Event::DocumentStart(_) => {
            if a.phase != Phase::Between {
                return Abs::bad();
            }
            b.phase = Phase::InDoc;
            b.n = 0;
            b.push(Fr::DocNeed);
        }
        Event::DocumentEnd => {
            if a.phase != Phase::InDoc || a.n != 1 || a.fr[0] != Fr::DocDone {
                return Abs::bad();
            }
            b.phase = Phase::Between;
            b.n = 0;
        }
        Event::Scalar(..) | Event::Alias(_) | Event::SequenceStart(..) | Event::MappingStart(..) => {
            if a.phase != Phase::InDoc || a.n == 0 {
                return Abs::bad();
            }
            match receive(a.fr[a.n - 1]) {
                None => return Abs::bad(),
                Some(f) => b.fr[a.n - 1] = f,
            }
            match ev {
                Event::SequenceStart(..) => b.push(Fr::Seq),
                Event::MappingStart(..) => b.push(Fr::MapK),
                _ => {}
            }
        }
        Event::SequenceEnd => {
            if a.phase != Phase::InDoc || a.n < 2 || a.fr[a.n - 1] != Fr::Seq {
                return Abs::bad();
            }
            b.n -= 1;
        }
        Event::MappingEnd => {
            if a.phase != Phase::InDoc || a.n < 2 || a.fr[a.n - 1] != Fr::MapK {
                return Abs::bad();
            }
            b.n -= 1;
        }
    }
    b
}

/// Frames a continuation entry on the state stack stands for (after its pending node completes).
fn push_entry_frames(a: &mut Abs, st: State, bottom: bool) {
    match st {
        State::DocumentEnd if bottom => a.push(Fr::DocDone),
        State::BlockMappingValue | State::FlowMappingValue | State::FlowMappingEmptyValue if !bottom => a.push(Fr::MapV),
        State::BlockMappingKey | State::FlowMappingKey if !bottom => a.push(Fr::MapK),
        State::BlockSequenceEntry | State::FlowSequenceEntry | State::IndentlessSequenceEntry if !bottom => a.push(Fr::Seq),
        State::FlowSequenceEntryMappingValue if !bottom => {
            a.push(Fr::Seq);
            a.push(Fr::MapV);
        }
        State::FlowSequenceEntryMappingEnd(_) if !bottom => {
            a.push(Fr::Seq);
            a.push(Fr::MapK);
        }
        _ => a.phase = Phase::Bad,
    }
}

/// Abstraction of a parser configuration; `Phase::Bad` = not a well-formed configuration.
pub fn abs_of(state: State, states: &[State]) -> Abs {
    match state {
        State::StreamStart => {
            return if states.is_empty() { Abs::new(Phase::Pre) } else { Abs::bad() };
        }
        State::ImplicitDocumentStart | State::DocumentStart => {
            return if states.is_empty() { Abs::new(Phase::Between) } else { Abs::bad() };
        }
        State::End => {
            return if states.is_empty() { Abs::new(Phase::End) } else { Abs::bad() };
        }
        _ => {}
    }
    let mut a = Abs::new(Phase::InDoc);
    let mut i = 0;
    while i < states.len() {
        push_entry_frames(&mut a, states[i], i == 0);
        i += 1;
    }
    match state {
        State::DocumentEnd => {
            if !states.is_empty() {
                return Abs::bad();
            }
            a.push(Fr::DocDone);
        }
        State::BlockNode | State::DocumentContent => {
            if a.n == 0 {
                return Abs::bad();
            }
            a.fr[a.n - 1] = unreceive(a.fr[a.n - 1]);
            if state == State::DocumentContent && states.len() != 1 {
                return Abs::bad();
            }
        }
        State::BlockMappingFirstKey | State::BlockMappingKey | State::FlowMappingFirstKey | State::FlowMappingKey => {
            a.push(Fr::MapK)
        }
        State::BlockMappingValue | State::FlowMappingValue | State::FlowMappingEmptyValue => a.push(Fr::MapV),
        State::BlockSequenceFirstEntry
        | State::BlockSequenceEntry
        | State::IndentlessSequenceEntry
        | State::FlowSequenceFirstEntry
        | State::FlowSequenceEntry => a.push(Fr::Seq),
        State::FlowSequenceEntryMappingKey | State::FlowSequenceEntryMappingEnd(_) => {
            a.push(Fr::Seq);
            a.push(Fr::MapK);
        }
        State::FlowSequenceEntryMappingValue => {
            a.push(Fr::Seq);
            a.push(Fr::MapV);
        }
        _ => return Abs::bad(),
    }
    if state != State::DocumentEnd && states.is_empty() {
        return Abs::bad();
    }
    a
}

fn continuation_from(k: u8) -> State {
    match k {
        0 => State::BlockMappingValue,
        1 => State::BlockMappingKey,
        2 => State::FlowMappingValue,
        3 => State::FlowMappingKey,
        4 => State::FlowMappingEmptyValue,
        5 => State::BlockSequenceEntry,
        6 => State::FlowSequenceEntry,
        7 => State::IndentlessSequenceEntry,
        8 => State::FlowSequenceEntryMappingValue,
        _ => State::FlowSequenceEntryMappingEnd(Marker::new(7, 1, 7)),
    }
}

/// Symbolic token sequence of `n` tokens (kinds from all 21, optionally without TAG and TAG_DIRECTIVE
/// tokens, whose heap strings are costly; those are covered by the *_tags and C16 harnesses)
/// followed by a scanner error.
fn sym_tokens(n: usize, with_tags: bool) -> Inject {
    let mut kinds = [0u8; MAXTOK];
    let mut payload = [0u8; MAXTOK];
    let mut i = 0;
    while i < n {
        let k: u8 = kani::any();
        kani::assume(k < tk::COUNT && (with_tags || (k != tk::TAG && k != tk::TAG_DIRECTIVE)));
        kinds[i] = k;
        let q: u8 = kani::any();
        kani::assume(q < 7);
        payload[i] = q;
        i += 1;
    }
    let len: usize = kani::any();
    kani::assume(len <= n);
    if sym::playback() {
        eprintln!("VERIF-INPUT tokens={:?} payload={:?}", &kinds[..len], &payload[..len]);
    }
    Inject { kinds, payload, len, pos: 0 }
}

pub const NAMES: [&str; 3] = ["a", "b", "c"];

/// A parser in an arbitrary well-formed configuration: `state`, a state stack of DocumentEnd plus
/// `depth` (0 or 2; structural choices are harness parameters, because a heap vector of symbolic
/// length makes every push/pop a symbolic-offset memory access) arbitrary continuation entries, an
/// anchor table {a: id1, b: id2} (c absent) with arbitrary ids below an arbitrary counter.
fn sym_config<'a>(state: State, depth: usize, ntok: usize, with_tags: bool) -> Parser<'a, StrInput<'a>> {
    let mut p = Parser::new(StrInput::new(""));
    p.scanner.verif_inject = Some(sym_tokens(ntok, with_tags));
    let in_doc = !matches!(state, State::StreamStart | State::ImplicitDocumentStart | State::DocumentStart | State::End);
    p.scanner.verif_set_stream_flags(state != State::StreamStart, false);
    p.state = state;
    if in_doc && state != State::DocumentEnd {
        p.states.push(State::DocumentEnd);
        if state != State::DocumentContent && depth == 2 {
            let e1: u8 = kani::any();
            let e2: u8 = kani::any();
            kani::assume(e1 < 10 && e2 < 10);
            p.states.push(continuation_from(e1));
            p.states.push(continuation_from(e2));
        }
    }
    let cnt: usize = kani::any();
    kani::assume(cnt >= 2 && cnt <= 1000);
    p.anchor_id_count = cnt;
    let id1: usize = kani::any();
    let id2: usize = kani::any();
    kani::assume(id1 >= 1 && id1 < cnt && id2 >= 1 && id2 < cnt);
    p.anchors.insert(Cow::Borrowed(NAMES[0]), id1);
    p.anchors.insert(Cow::Borrowed(NAMES[1]), id2);
    if sym::playback() {
        eprintln!("VERIF-INPUT state={:?} states={:?} anchor_id_count={} anchors={:?}", p.state, p.states, cnt, p.anchors);
    }
    p
}

fn event_anchor(ev: &Event) -> usize {
    match ev {
        Event::Scalar(_, _, a, _) | Event::SequenceStart(a, _) | Event::MappingStart(a, _) => *a,
        _ => 0,
    }
}

/// One step of the parser from an arbitrary well-formed configuration in `state`.
fn step(state: State, depth: usize, ntok: usize, with_tags: bool) {
    let mut p = sym_config(state, depth, ntok, with_tags);
    let before = abs_of(p.state, &p.states);
    assert!(before.phase != Phase::Bad, "harness: start configuration is well-formed");
    let cnt0 = p.anchor_id_count;
    let r = p.parse();
    match &r {
        Ok((ev, span)) => {
            kani::cover!(true, "must: an event is produced");
            let want = monitor_step(&before, ev);
            assert!(want.phase != Phase::Bad, "C02: event not allowed by the event grammar at this point");
            let after = abs_of(p.state, &p.states);
            assert!(after.phase != Phase::Bad, "C02: parser left an ill-formed state stack");
            assert!(after.same(&want), "C02: parser configuration disagrees with the grammar position after the event");
            // anchors: fresh, increasing ids; aliases refer to ids handed out earlier
            let aid = event_anchor(ev);
            if aid > 0 {
                assert!(aid == cnt0 && p.anchor_id_count == cnt0 + 1, "C02: anchor id is not fresh");
            } else {
                assert!(p.anchor_id_count == cnt0, "C02: anchor counter moved without an anchored node");
            }
            if let Event::Alias(id) = ev {
                assert!(*id >= 1 && *id < cnt0, "C02: alias id was never handed out");
            }
            let mut i = 0;
            while i < 3 {
                if let Some(id) = p.anchors.get(NAMES[i]) {
                    assert!(*id >= 1 && *id < p.anchor_id_count, "C02: anchor table holds an id that was never handed out");
                }
                i += 1;
            }
            // spans (C12): start <= end
            assert!(span.start.index() <= span.end.index(), "C12: event span ends before it starts");
        }
        Err(_) => {
            kani::cover!(true, "an error is produced");
        }
    }
    std::mem::forget(r);
    std::mem::forget(p);
}

macro_rules! step_harness {
    ($name:ident, $state:expr, $depth:expr, $ntok:expr, $tags:expr) => {
        #[kani::proof]
        #[kani::unwind(10)]
        pub fn $name() {
            step($state, $depth, $ntok, $tags);
        }
    };
}
step_harness!(c02_step_stream_start, State::StreamStart, 0, 2, false);
step_harness!(c02_step_implicit_document_start, State::ImplicitDocumentStart, 0, 2, false);
step_harness!(c02_step_document_start, State::DocumentStart, 0, 2, false);
step_harness!(c02_step_document_content, State::DocumentContent, 0, 3, false);
step_harness!(c02_step_document_end, State::DocumentEnd, 0, 2, false);
step_harness!(c02_step_block_node_d0, State::BlockNode, 0, 3, false);
step_harness!(c02_step_block_node_d2, State::BlockNode, 2, 3, false);
step_harness!(c02_step_block_sequence_first_entry_d0, State::BlockSequenceFirstEntry, 0, 4, false);
step_harness!(c02_step_block_sequence_first_entry_d2, State::BlockSequenceFirstEntry, 2, 4, false);
step_harness!(c02_step_block_sequence_entry_d0, State::BlockSequenceEntry, 0, 4, false);
step_harness!(c02_step_block_sequence_entry_d2, State::BlockSequenceEntry, 2, 4, false);
step_harness!(c02_step_indentless_sequence_entry_d0, State::IndentlessSequenceEntry, 0, 4, false);
step_harness!(c02_step_indentless_sequence_entry_d2, State::IndentlessSequenceEntry, 2, 4, false);
step_harness!(c02_step_block_mapping_first_key_d0, State::BlockMappingFirstKey, 0, 5, false);
step_harness!(c02_step_block_mapping_first_key_d2, State::BlockMappingFirstKey, 2, 5, false);
step_harness!(c02_step_block_mapping_key_d0, State::BlockMappingKey, 0, 4, false);
step_harness!(c02_step_block_mapping_key_d2, State::BlockMappingKey, 2, 4, false);
step_harness!(c02_step_block_mapping_value_d0, State::BlockMappingValue, 0, 4, false);
step_harness!(c02_step_block_mapping_value_d2, State::BlockMappingValue, 2, 4, false);
step_harness!(c02_step_flow_sequence_first_entry_d0, State::FlowSequenceFirstEntry, 0, 4, false);
step_harness!(c02_step_flow_sequence_first_entry_d2, State::FlowSequenceFirstEntry, 2, 4, false);
step_harness!(c02_step_flow_sequence_entry_d0, State::FlowSequenceEntry, 0, 4, false);
step_harness!(c02_step_flow_sequence_entry_d2, State::FlowSequenceEntry, 2, 4, false);
step_harness!(c02_step_flow_sequence_entry_mapping_key_d0, State::FlowSequenceEntryMappingKey, 0, 3, false);
step_harness!(c02_step_flow_sequence_entry_mapping_key_d2, State::FlowSequenceEntryMappingKey, 2, 3, false);
step_harness!(c02_step_flow_sequence_entry_mapping_value_d0, State::FlowSequenceEntryMappingValue, 0, 4, false);
step_harness!(c02_step_flow_sequence_entry_mapping_value_d2, State::FlowSequenceEntryMappingValue, 2, 4, false);
step_harness!(c02_step_flow_sequence_entry_mapping_end_d0, State::FlowSequenceEntryMappingEnd(Marker::new(7, 1, 7)), 0, 1, false);
step_harness!(c02_step_flow_sequence_entry_mapping_end_d2, State::FlowSequenceEntryMappingEnd(Marker::new(7, 1, 7)), 2, 1, false);
step_harness!(c02_step_flow_mapping_first_key_d0, State::FlowMappingFirstKey, 0, 5, false);
step_harness!(c02_step_flow_mapping_first_key_d2, State::FlowMappingFirstKey, 2, 5, false);
step_harness!(c02_step_flow_mapping_key_d0, State::FlowMappingKey, 0, 5, false);
step_harness!(c02_step_flow_mapping_key_d2, State::FlowMappingKey, 2, 5, false);
step_harness!(c02_step_flow_mapping_value_d0, State::FlowMappingValue, 0, 4, false);
step_harness!(c02_step_flow_mapping_value_d2, State::FlowMappingValue, 2, 4, false);
step_harness!(c02_step_flow_mapping_empty_value_d0, State::FlowMappingEmptyValue, 0, 1, false);
step_harness!(c02_step_flow_mapping_empty_value_d2, State::FlowMappingEmptyValue, 2, 1, false);
step_harness!(c02_step_block_node_tags_d0, State::BlockNode, 0, 3, true);
step_harness!(c02_step_block_node_tags_d2, State::BlockNode, 2, 3, true);

//! Kani harnesses compiled inside `saphyr_parser::parser` as a child module (sees private items).
//! The parser state machine is driven by injected token sequences (see scanner_harness.rs).
#![allow(dead_code, unused_imports, clippy::all)]
use super::*;
use crate::input::str::StrInput;
use crate::scanner::verif_harness::{tk, Inject, MAXTOK, MASK_ALL, MASK_NO_TAGS};

#[path = "/verif/kani/common/sym.rs"]
pub mod sym;

#[cfg(test)]
mod playback {
    use super::*;
    include!("/verif/.work/playback/parser.rs");
}


// ------------------------------------------------------------------------------------------------
// Event-grammar monitor (C02) over an abstraction of the parser configuration.
//
// Frames, bottom first: Doc* then collection frames. A step of the parser (one call of `parse`)
// from ANY well-formed configuration must (1) not panic, (2) deliver an event the monitor accepts,
// (3) leave a well-formed configuration whose abstraction is the monitor's successor state.
// By induction over steps this gives the sentence property for token streams of any length.
// ------------------------------------------------------------------------------------------------

#[derive(Clone, Copy, PartialEq, Eq, Debug)]
pub enum Fr {
    DocNeed,
    DocDone,
    Seq,
    MapK,
    MapV,
}
#[derive(Clone, Copy, PartialEq, Eq, Debug)]
pub enum Phase {
    Pre,
    Between,
    InDoc,
    End,
    Bad,
}
pub const MAXFR: usize = 8;
#[derive(Clone, Copy, Debug)]
pub struct Abs {
    pub phase: Phase,
    pub fr: [Fr; MAXFR],
    pub n: usize,
}
impl Abs {
    fn new(phase: Phase) -> Abs {
        Abs { phase, fr: [Fr::Seq; MAXFR], n: 0 }
    }
    fn bad() -> Abs {
        Abs::new(Phase::Bad)
    }
    fn push(&mut self, f: Fr) {
        if self.n >= MAXFR {
            self.phase = Phase::Bad;
        } else {
            self.fr[self.n] = f;
            self.n += 1;
        }
    }
    fn same(&self, o: &Abs) -> bool {
        // loop-free (MAXFR = 8): keeps the unwinding bound of harnesses independent of the monitor
        if self.phase != o.phase || self.n != o.n {
            return false;
        }
        let n = self.n;
        (n <= 0 || self.fr[0] == o.fr[0])
            && (n <= 1 || self.fr[1] == o.fr[1])
            && (n <= 2 || self.fr[2] == o.fr[2])
            && (n <= 3 || self.fr[3] == o.fr[3])
            && (n <= 4 || self.fr[4] == o.fr[4])
            && (n <= 5 || self.fr[5] == o.fr[5])
            && (n <= 6 || self.fr[6] == o.fr[6])
            && (n <= 7 || self.fr[7] == o.fr[7])
    }
}
fn receive(f: Fr) -> Option<Fr> {
    match f {
        Fr::DocNeed => Some(Fr::DocDone),
        Fr::DocDone => None, // a second root node
        Fr::Seq => Some(Fr::Seq),
        Fr::MapK => Some(Fr::MapV),
        Fr::MapV => Some(Fr::MapK),
    }
}
fn unreceive(f: Fr) -> Fr {
    match f {
        Fr::DocDone => Fr::DocNeed,
        Fr::DocNeed => Fr::DocNeed,
        Fr::Seq => Fr::Seq,
        Fr::MapK => Fr::MapV,
        Fr::MapV => Fr::MapK,
    }
}

/// Monitor transition; `Phase::Bad` = the event is not allowed here.
pub fn monitor_step(a: &Abs, ev: &Event) -> Abs {
    let mut b = *a;
    match ev {
        Event::Nothing => return Abs::bad(),
        Event::StreamStart => {
            if a.phase != Phase::Pre {
                return Abs::bad();
            }
            b.phase = Phase::Between;
        }
        Event::StreamEnd => {
            if a.phase != Phase::Between {
                return Abs::bad();
            }
            b.phase = Phase::End;
        }
        Event::DocumentStart(_) => {
            if a.phase != Phase::Between {
                return Abs::bad();
            }
            b.phase = Phase::InDoc;
            b.n = 0;
            b.push(Fr::DocNeed);
        }
        Event::DocumentEnd => {
            if a.phase != Phase::InDoc || a.n != 1 || a.fr[0] != Fr::DocDone {
                return Abs::bad();
            }
            b.phase = Phase::Between;
            b.n = 0;
        }
        Event::Scalar(..) | Event::Alias(_) | Event::SequenceStart(..) | Event::MappingStart(..) => {
            if a.phase != Phase::InDoc || a.n == 0 {
                return Abs::bad();
            }
            match receive(a.fr[a.n - 1]) {
                None => return Abs::bad(),
                Some(f) => b.fr[a.n - 1] = f,
            }
            match ev {
                Event::SequenceStart(..) => b.push(Fr::Seq),
                Event::MappingStart(..) => b.push(Fr::MapK),
                _ => {}
            }
        }
        Event::SequenceEnd => {
            if a.phase != Phase::InDoc || a.n < 2 || a.fr[a.n - 1] != Fr::Seq {
                return Abs::bad();
            }
            b.n -= 1;
        }
        Event::MappingEnd => {
            if a.phase != Phase::InDoc || a.n < 2 || a.fr[a.n - 1] != Fr::MapK {
                return Abs::bad();
            }
            b.n -= 1;
        }
    }
    b
}

/// Frames a continuation entry on the state stack stands for (after its pending node completes).
fn push_entry_frames(a: &mut Abs, st: State, bottom: bool) {
    match st {
        State::DocumentEnd if bottom => a.push(Fr::DocDone),
        State::BlockMappingValue | State::FlowMappingValue | State::FlowMappingEmptyValue if !bottom => a.push(Fr::MapV),
        State::BlockMappingKey | State::FlowMappingKey if !bottom => a.push(Fr::MapK),
        State::BlockSequenceEntry | State::FlowSequenceEntry | State::IndentlessSequenceEntry if !bottom => a.push(Fr::Seq),
        State::FlowSequenceEntryMappingValue if !bottom => {
            a.push(Fr::Seq);
            a.push(Fr::MapV);
        }
        State::FlowSequenceEntryMappingEnd(_) if !bottom => {
            a.push(Fr::Seq);
            a.push(Fr::MapK);
        }
        _ => a.phase = Phase::Bad,
    }
}

/// Abstraction of a parser configuration; `Phase::Bad` = not a well-formed configuration.
pub fn abs_of(state: State, states: &[State]) -> Abs {
    match state {
        State::StreamStart => {
            return if states.is_empty() { Abs::new(Phase::Pre) } else { Abs::bad() };
        }
        State::ImplicitDocumentStart | State::DocumentStart => {
            return if states.is_empty() { Abs::new(Phase::Between) } else { Abs::bad() };
        }
        State::End => {
            return if states.is_empty() { Abs::new(Phase::End) } else { Abs::bad() };
        }
        _ => {}
    }
    let mut a = Abs::new(Phase::InDoc);
    let mut i = 0;
    while i < states.len() {
        push_entry_frames(&mut a, states[i], i == 0);
        i += 1;
    }
    match state {
        State::DocumentEnd => {
            if !states.is_empty() {
                return Abs::bad();
            }
            a.push(Fr::DocDone);
        }
        State::BlockNode | State::DocumentContent => {
            if a.n == 0 {
                return Abs::bad();
            }
            a.fr[a.n - 1] = unreceive(a.fr[a.n - 1]);
            if state == State::DocumentContent && states.len() != 1 {
                return Abs::bad();
            }
        }
        State::BlockMappingFirstKey | State::BlockMappingKey | State::FlowMappingFirstKey | State::FlowMappingKey => {
            a.push(Fr::MapK)
        }
        State::BlockMappingValue | State::FlowMappingValue | State::FlowMappingEmptyValue => a.push(Fr::MapV),
        State::BlockSequenceFirstEntry
        | State::BlockSequenceEntry
        | State::IndentlessSequenceEntry
        | State::FlowSequenceFirstEntry
        | State::FlowSequenceEntry => a.push(Fr::Seq),
        State::FlowSequenceEntryMappingKey | State::FlowSequenceEntryMappingEnd(_) => {
            a.push(Fr::Seq);
            a.push(Fr::MapK);
        }
        State::FlowSequenceEntryMappingValue => {
            a.push(Fr::Seq);
            a.push(Fr::MapV);
        }
        _ => return Abs::bad(),
    }
    if state != State::DocumentEnd && states.is_empty() {
        return Abs::bad();
    }
    a
}

fn continuation_from(k: u8) -> State {
    match k {
        0 => State::BlockMappingValue,
        1 => State::BlockMappingKey,
        2 => State::FlowMappingValue,
        3 => State::FlowMappingKey,
        4 => State::FlowMappingEmptyValue,
        5 => State::BlockSequenceEntry,
        6 => State::FlowSequenceEntry,
        7 => State::IndentlessSequenceEntry,
        8 => State::FlowSequenceEntryMappingValue,
        _ => State::FlowSequenceEntryMappingEnd(Marker::new(7, 1, 7)),
    }
}

/// Symbolic token sequence of `n` tokens (kinds from all 21, optionally without TAG and TAG_DIRECTIVE
/// tokens, whose heap strings are costly; those are covered by the *_tags and C16 harnesses)
/// followed by a scanner error.
fn sym_tokens(n: usize, with_tags: bool) -> Inject {
    let mut kinds = [0u8; MAXTOK];
    let mut payload = [0u8; MAXTOK];
    let mut i = 0;
    while i < n {
        let k: u8 = kani::any();
        kani::assume(k < tk::COUNT && (with_tags || (k != tk::TAG && k != tk::TAG_DIRECTIVE)));
        kinds[i] = k;
        let q: u8 = kani::any();
        kani::assume(q < 7);
        payload[i] = q;
        i += 1;
    }
    let len: usize = kani::any();
    kani::assume(len <= n);
    if sym::playback() {
        eprintln!("VERIF-INPUT tokens={:?} payload={:?}", &kinds[..len], &payload[..len]);
    }
    Inject { kinds, payload, len, pos: 0, mask: if with_tags { MASK_ALL } else { MASK_NO_TAGS } }
}

pub const NAMES: [&str; 3] = ["a", "b", "c"];

/// A parser in an arbitrary well-formed configuration: `state`, a state stack of DocumentEnd plus
/// `depth` (0 or 2; structural choices are harness parameters, because a heap vector of symbolic
/// length makes every push/pop a symbolic-offset memory access) arbitrary continuation entries, an
/// anchor table {a: id1, b: id2} (c absent) with arbitrary ids below an arbitrary counter.
fn sym_config<'a>(state: State, depth: usize, ntok: usize, with_tags: bool) -> Parser<'a, StrInput<'a>> {
    let mut p = Parser::new(StrInput::new(""));
    p.scanner.verif_inject = Some(sym_tokens(ntok, with_tags));
    let in_doc = !matches!(state, State::StreamStart | State::ImplicitDocumentStart | State::DocumentStart | State::End);
    p.scanner.verif_set_stream_flags(state != State::StreamStart, false);
    p.state = state;
    if in_doc && state != State::DocumentEnd {
        p.states.push(State::DocumentEnd);
        if state != State::DocumentContent && depth == 2 {
            let e1: u8 = kani::any();
            let e2: u8 = kani::any();
            kani::assume(e1 < 10 && e2 < 10);
            p.states.push(continuation_from(e1));
            p.states.push(continuation_from(e2));
        }
    }
    let cnt: usize = kani::any();
    kani::assume(cnt >= 2 && cnt <= 1000);
    p.anchor_id_count = cnt;
    let id1: usize = kani::any();
    let id2: usize = kani::any();
    kani::assume(id1 >= 1 && id1 < cnt && id2 >= 1 && id2 < cnt);
    p.anchors.insert(Cow::Borrowed(NAMES[0]), id1);
    p.anchors.insert(Cow::Borrowed(NAMES[1]), id2);
    if sym::playback() {
        eprintln!("VERIF-INPUT state={:?} states={:?} anchor_id_count={} anchors={:?}", p.state, p.states, cnt, p.anchors);
    }
    p
}

fn event_anchor(ev: &Event) -> usize {
    match ev {
        Event::Scalar(_, _, a, _) | Event::SequenceStart(a, _) | Event::MappingStart(a, _) => *a,
        _ => 0,
    }
}

/// One step of the parser from an arbitrary well-formed configuration in `state`.
fn step(state: State, depth: usize, ntok: usize, with_tags: bool) {
    let mut p = sym_config(state, depth, ntok, with_tags);
    let before = abs_of(p.state, &p.states);
    assert!(before.phase != Phase::Bad, "harness: start configuration is well-formed");
    let cnt0 = p.anchor_id_count;
    let r = p.parse();
    match &r {
        Ok((ev, span)) => {
            kani::cover!(true, "must: an event is produced");
            let want = monitor_step(&before, ev);
            assert!(want.phase != Phase::Bad, "C02: event not allowed by the event grammar at this point");
            let after = abs_of(p.state, &p.states);
            assert!(after.phase != Phase::Bad, "C02: parser left an ill-formed state stack");
            assert!(after.same(&want), "C02: parser configuration disagrees with the grammar position after the event");
            // anchors: fresh, increasing ids; aliases refer to ids handed out earlier
            let aid = event_anchor(ev);
            if aid > 0 {
                assert!(aid == cnt0 && p.anchor_id_count == cnt0 + 1, "C02: anchor id is not fresh");
            } else {
                assert!(p.anchor_id_count == cnt0, "C02: anchor counter moved without an anchored node");
            }
            if let Event::Alias(id) = ev {
                assert!(*id >= 1 && *id < cnt0, "C02: alias id was never handed out");
            }
            let mut i = 0;
            while i < 3 {
                if let Some(id) = p.anchors.get(NAMES[i]) {
                    assert!(*id >= 1 && *id < p.anchor_id_count, "C02: anchor table holds an id that was never handed out");
                }
                i += 1;
            }
            // spans (C12): start <= end
            assert!(span.start.index() <= span.end.index(), "C12: event span ends before it starts");
        }
        Err(_) => {
            kani::cover!(true, "an error is produced");
        }
    }
    std::mem::forget(r);
    std::mem::forget(p);
}

macro_rules! step_harness {
    ($name:ident, $state:expr, $depth:expr, $ntok:expr, $tags:expr) => {
        #[kani::proof]
        #[kani::unwind(10)]
        pub fn $name() {
            step($state, $depth, $ntok, $tags);
        }
    };
}
step_harness!(c02_step_stream_start, State::StreamStart, 0, 2, false);
step_harness!(c02_step_document_content, State::DocumentContent, 0, 3, false);
step_harness!(c02_step_document_end, State::DocumentEnd, 0, 2, false);
step_harness!(c02_step_block_node_d0, State::BlockNode, 0, 3, false);
step_harness!(c02_step_block_node_d2, State::BlockNode, 2, 3, false);
step_harness!(c02_step_block_sequence_first_entry_d0, State::BlockSequenceFirstEntry, 0, 4, false);
step_harness!(c02_step_block_sequence_first_entry_d2, State::BlockSequenceFirstEntry, 2, 4, false);
step_harness!(c02_step_block_sequence_entry_d0, State::BlockSequenceEntry, 0, 4, false);
step_harness!(c02_step_block_sequence_entry_d2, State::BlockSequenceEntry, 2, 4, false);
step_harness!(c02_step_indentless_sequence_entry_d0, State::IndentlessSequenceEntry, 0, 4, false);
step_harness!(c02_step_indentless_sequence_entry_d2, State::IndentlessSequenceEntry, 2, 4, false);
step_harness!(c02_step_block_mapping_first_key_d0, State::BlockMappingFirstKey, 0, 5, false);
step_harness!(c02_step_block_mapping_first_key_d2, State::BlockMappingFirstKey, 2, 5, false);
step_harness!(c02_step_block_mapping_key_d0, State::BlockMappingKey, 0, 4, false);
step_harness!(c02_step_block_mapping_key_d2, State::BlockMappingKey, 2, 4, false);
step_harness!(c02_step_block_mapping_value_d0, State::BlockMappingValue, 0, 4, false);
step_harness!(c02_step_block_mapping_value_d2, State::BlockMappingValue, 2, 4, false);
step_harness!(c02_step_flow_sequence_first_entry_d0, State::FlowSequenceFirstEntry, 0, 4, false);
step_harness!(c02_step_flow_sequence_first_entry_d2, State::FlowSequenceFirstEntry, 2, 4, false);
step_harness!(c02_step_flow_sequence_entry_d0, State::FlowSequenceEntry, 0, 4, false);
step_harness!(c02_step_flow_sequence_entry_d2, State::FlowSequenceEntry, 2, 4, false);
step_harness!(c02_step_flow_sequence_entry_mapping_key_d0, State::FlowSequenceEntryMappingKey, 0, 3, false);
step_harness!(c02_step_flow_sequence_entry_mapping_key_d2, State::FlowSequenceEntryMappingKey, 2, 3, false);
step_harness!(c02_step_flow_sequence_entry_mapping_value_d0, State::FlowSequenceEntryMappingValue, 0, 4, false);
step_harness!(c02_step_flow_sequence_entry_mapping_value_d2, State::FlowSequenceEntryMappingValue, 2, 4, false);
step_harness!(c02_step_flow_sequence_entry_mapping_end_d0, State::FlowSequenceEntryMappingEnd(Marker::new(7, 1, 7)), 0, 1, false);
step_harness!(c02_step_flow_sequence_entry_mapping_end_d2, State::FlowSequenceEntryMappingEnd(Marker::new(7, 1, 7)), 2, 1, false);
step_harness!(c02_step_flow_mapping_first_key_d0, State::FlowMappingFirstKey, 0, 5, false);
step_harness!(c02_step_flow_mapping_first_key_d2, State::FlowMappingFirstKey, 2, 5, false);
step_harness!(c02_step_flow_mapping_key_d0, State::FlowMappingKey, 0, 5, false);
step_harness!(c02_step_flow_mapping_key_d2, State::FlowMappingKey, 2, 5, false);
step_harness!(c02_step_flow_mapping_value_d0, State::FlowMappingValue, 0, 4, false);
step_harness!(c02_step_flow_mapping_value_d2, State::FlowMappingValue, 2, 4, false);
step_harness!(c02_step_flow_mapping_empty_value_d0, State::FlowMappingEmptyValue, 0, 1, false);
step_harness!(c02_step_flow_mapping_empty_value_d2, State::FlowMappingEmptyValue, 2, 1, false);
step_harness!(c02_step_block_node_tags_d0, State::BlockNode, 0, 3, true);
step_harness!(c02_step_block_node_tags_d2, State::BlockNode, 2, 3, true);

// ------------------------------------------------------------------------------------------------
// Document-boundary scenarios (C02, C06, C15, C16): the token KINDS are a concrete template (the
// directive loops of document_start make a symbolic kind sequence explode), payloads (which handle,
// which prefix), keep_tags and the tag table left by earlier documents are symbolic.
// ------------------------------------------------------------------------------------------------
use crate::scanner::verif_harness::DIRECTIVES;

fn scenario_parser<'a>(kinds: &[u8], payloads: &[u8], state: State) -> (Parser<'a, StrInput<'a>>, [u8; MAXTOK]) {
    let mut k = [0u8; MAXTOK];
    let mut payload = [0u8; MAXTOK];
    let mut i = 0;
    while i < kinds.len() {
        k[i] = kinds[i];
        payload[i] = if i < payloads.len() { payloads[i] } else { 0 };
        i += 1;
    }
    let mut p = Parser::new(StrInput::new(""));
    p.scanner.verif_inject = Some(Inject { kinds: k, payload, len: kinds.len(), pos: 0, mask: MASK_ALL });
    p.scanner.verif_set_stream_flags(true, false);
    p.state = state;
    p.keep_tags = kani::any();
    if sym::playback() {
        eprintln!("VERIF-INPUT token_kinds={:?} payload={:?} keep_tags={} state={:?}", kinds, &payload[..kinds.len()], p.keep_tags, state);
    }
    (p, payload)
}

/// Tag table a correct parser holds after the directives `kinds/payload` of one document, given the
/// table `before` (index = position in DIRECTIVES; value: 0 absent, 1 = old prefix, 2 = this
/// document's prefix). Returns None if a handle is declared twice in the document.
fn ref_tags(before: [u8; 4], kinds: &[u8], payload: &[u8; MAXTOK]) -> Option<[u8; 4]> {
    let mut t = before;
    let mut seen = [false; 4];
    let mut i = 0;
    while i < kinds.len() {
        if kinds[i] == tk::TAG_DIRECTIVE {
            let h = (payload[i] as usize) % 4;
            if seen[h] {
                return None;
            }
            seen[h] = true;
            t[h] = 2;
        }
        i += 1;
    }
    Some(t)
}

fn doc_start_scenario(kinds: &[u8], payloads: &[u8], implicit: bool) {
    let (mut p, payload) = scenario_parser(kinds, payloads, if implicit { State::ImplicitDocumentStart } else { State::DocumentStart });
    // table left by an earlier document (reachable with keep_tags; inserted unconditionally because a
    // table of symbolic length makes the solver run out of memory, and the directive code does not
    // look at keep_tags - this over-approximates the reachable states)
    let mut before = [0u8; 4];
    p.tags.insert(String::from(DIRECTIVES[0].0), String::from("old:"));
    before[0] = 1;
    let abs0 = abs_of(p.state, &p.states);
    let r = p.parse();
    // expected outcome from the YAML rules
    let mut n_version = 0;
    let mut n_dir = 0;
    let mut i = 0;
    while i < kinds.len() && (kinds[i] == tk::DOCUMENT_END) {
        i += 1;
    }
    let first = i;
    while i < kinds.len() && (kinds[i] == tk::VERSION_DIRECTIVE || kinds[i] == tk::TAG_DIRECTIVE) {
        if kinds[i] == tk::VERSION_DIRECTIVE {
            n_version += 1;
        }
        n_dir += 1;
        i += 1;
    }
    let after_dirs = if i < kinds.len() { kinds[i] } else { 255 };
    let want_tags = ref_tags(before, kinds, &payload);
    let explicit_required = !implicit && after_dirs != tk::STREAM_END;
    let must_fail = n_version > 1
        || want_tags.is_none()
        || ((n_dir > 0 || explicit_required) && after_dirs != tk::DOCUMENT_START)
        || after_dirs == 255;
    match &r {
        Ok((ev, _)) => {
            assert!(!must_fail, "C06: repeated %YAML, repeated %TAG handle or directives without '---' accepted");
            let want = monitor_step(&abs0, ev);
            assert!(want.phase != Phase::Bad, "C02: event not allowed by the event grammar at a document boundary");
            let after = abs_of(p.state, &p.states);
            assert!(after.same(&want), "C02: parser configuration disagrees with the grammar position after the event");
            if first < kinds.len() && kinds[first] == tk::STREAM_END {
                assert!(matches!(ev, Event::StreamEnd), "C02: stream end not reported");
            } else {
                assert!(matches!(ev, Event::DocumentStart(_)), "C02: document start not reported");
                // C16: ALL %TAG directives of the document are in force together
                let t = want_tags.unwrap();
                let mut h = 0;
                while h < 4 {
                    let got = p.tags.get(DIRECTIVES[h].0);
                    match t[h] {
                        0 => assert!(got.is_none(), "C16: a handle is in force that no directive of this document declared"),
                        1 => assert!(got.is_some_and(|v| v == "old:"), "C16: keep_tags lost a handle of an earlier document"),
                        _ => assert!(got.is_some_and(|v| v == DIRECTIVES[h].1), "C16: a %TAG directive of the document is not in force"),
                    }
                    h += 1;
                }
            }
            kani::cover!(true, "accepted");
        }
        Err(_) => {
            assert!(must_fail, "C16: a well-formed directive prologue is rejected");
            kani::cover!(true, "rejected");
        }
    }
    kani::cover!(true, "must: outcome compared with the reference");
    std::mem::forget(r);
    std::mem::forget(p);
}

macro_rules! doc_start_harness {
    ($name:ident, $implicit:expr, [$($k:expr),+], [$($p:expr),*]) => {
        #[kani::proof]
        #[kani::unwind(7)]
        pub fn $name() {
            doc_start_scenario(&[$($k),+], &[$($p),*], $implicit);
        }
    };
}
// token KINDS and directive handles (index into DIRECTIVES: 0 !a!, 1 !b!, 2 !!, 3 !) are concrete per
// harness (symbolic handles make every map operation a symbolic string comparison inside the
// directive loop); keep_tags and therefore the table left by earlier documents are symbolic.
doc_start_harness!(c16_docstart_stream_end, true, [tk::STREAM_END], []);
doc_start_harness!(c16_docstart_skip_doc_ends, false, [tk::DOCUMENT_END, tk::DOCUMENT_END, tk::STREAM_END], []);
doc_start_harness!(c16_docstart_implicit_scalar, true, [tk::SCALAR], []);
doc_start_harness!(c16_docstart_explicit, true, [tk::DOCUMENT_START, tk::SCALAR], []);
doc_start_harness!(c16_docstart_explicit_required_missing, false, [tk::SCALAR], []);
doc_start_harness!(c16_docstart_version, true, [tk::VERSION_DIRECTIVE, tk::DOCUMENT_START], []);
doc_start_harness!(c16_docstart_two_versions, true, [tk::VERSION_DIRECTIVE, tk::VERSION_DIRECTIVE, tk::DOCUMENT_START], []);
doc_start_harness!(c16_docstart_redeclare_kept_handle, true, [tk::TAG_DIRECTIVE, tk::DOCUMENT_START], [0]);
doc_start_harness!(c16_docstart_one_tag, false, [tk::TAG_DIRECTIVE, tk::DOCUMENT_START], [2]);
doc_start_harness!(c16_docstart_version_then_tag, true, [tk::VERSION_DIRECTIVE, tk::TAG_DIRECTIVE, tk::DOCUMENT_START], [0, 1]);
doc_start_harness!(c16_docstart_tag_then_version, false, [tk::TAG_DIRECTIVE, tk::VERSION_DIRECTIVE, tk::DOCUMENT_START], [1]);
doc_start_harness!(c16_docstart_tag_without_docstart, true, [tk::TAG_DIRECTIVE, tk::SCALAR], [1]);

/// C15: the end of a document resets the per-document parser state: handles are dropped unless
/// keep_tags; after an explicit '...' the next document may start implicitly, otherwise a directive
/// is an error; the state stack is empty.
fn doc_end_scenario(kinds: &[u8]) {
    let (mut p, _payload) = scenario_parser(kinds, &[], State::DocumentEnd);
    p.tags.insert(String::from("!a!"), String::from("p1:"));
    p.tags.insert(String::from("!!"), String::from("p3:"));
    let abs0 = abs_of(p.state, &p.states);
    let r = p.parse();
    let explicit = kinds[0] == tk::DOCUMENT_END;
    let next = if explicit { kinds[1] } else { kinds[0] };
    let directive_next = next == tk::VERSION_DIRECTIVE || next == tk::TAG_DIRECTIVE;
    match &r {
        Ok((ev, _)) => {
            assert!(matches!(ev, Event::DocumentEnd), "C02: document end not reported");
            assert!(explicit || !directive_next, "C06: directive accepted without a document end marker before it");
            let want = monitor_step(&abs0, ev);
            let after = abs_of(p.state, &p.states);
            assert!(after.same(&want), "C02: parser configuration disagrees with the grammar position after the event");
            assert!(p.states.is_empty(), "C15: state stack not empty between documents");
            if explicit {
                assert!(p.state == State::ImplicitDocumentStart, "C15: after '...' the next document cannot start implicitly");
            } else {
                assert!(p.state == State::DocumentStart, "C15: without '...' the next document must start with '---'");
            }
            if p.keep_tags {
                assert!(p.tags.get("!a!").is_some() && p.tags.get("!!").is_some(), "C16: keep_tags dropped the handles");
            } else {
                assert!(p.tags.get("!a!").is_none() && p.tags.get("!!").is_none() && p.tags.is_empty(), "C15: %TAG handles survive the end of their document");
            }
            kani::cover!(true, "accepted");
        }
        Err(_) => {
            assert!(!explicit && directive_next, "C15: a well-formed document end is rejected");
        }
    }
    kani::cover!(true, "must: outcome compared with the reference");
    std::mem::forget(r);
    std::mem::forget(p);
}
macro_rules! doc_end_harness {
    ($name:ident, $($k:expr),+) => {
        #[kani::proof]
        #[kani::unwind(7)]
        pub fn $name() {
            doc_end_scenario(&[$($k),+]);
        }
    };
}
doc_end_harness!(c15_docend_explicit_then_doc, tk::DOCUMENT_END, tk::SCALAR);
doc_end_harness!(c15_docend_explicit_then_directive, tk::DOCUMENT_END, tk::TAG_DIRECTIVE);
doc_end_harness!(c15_docend_explicit_then_eof, tk::DOCUMENT_END, tk::STREAM_END);
doc_end_harness!(c15_docend_implicit_then_docstart, tk::DOCUMENT_START, tk::SCALAR);
doc_end_harness!(c15_docend_implicit_then_eof, tk::STREAM_END, tk::STREAM_END);

/// C16: tag resolution through the handles in force. Token template: TAG then SCALAR (or ANCHOR, TAG,
/// SCALAR); the TAG payload (7 spellings) and the tag table (each of 4 handles bound or not... bound
/// to its pool prefix, chosen by a concrete harness parameter) are symbolic / parameters.
/// String equality that never runs a long byte loop: strings longer than 4 bytes are compared by
/// length, first and last byte (the pool's long prefix is unique by length).
fn same_str(a: &str, b: &str) -> bool {
    let (x, y) = (a.as_bytes(), b.as_bytes());
    if x.len() != y.len() {
        return false;
    }
    let n = x.len();
    if n == 0 {
        return true;
    }
    if n > 4 {
        return x[0] == y[0] && x[n - 1] == y[n - 1];
    }
    let mut i = 0;
    while i < 4 {
        if i < n && x[i] != y[i] {
            return false;
        }
        i += 1;
    }
    true
}

fn resolve_scenario(table_mask: u8, with_anchor: bool) {
    let kinds_a = [tk::ANCHOR, tk::TAG, tk::SCALAR];
    let kinds_b = [tk::TAG, tk::SCALAR];
    let kinds: &[u8] = if with_anchor { &kinds_a } else { &kinds_b };
    let mut k = [0u8; MAXTOK];
    let mut payload = [0u8; MAXTOK];
    let mut i = 0;
    while i < kinds.len() {
        k[i] = kinds[i];
        i += 1;
    }
    let tagsel: u8 = kani::any();
    kani::assume(tagsel < 7);
    let ti = if with_anchor { 1 } else { 0 };
    payload[ti] = tagsel;
    let mut p = Parser::new(StrInput::new(""));
    p.scanner.verif_inject = Some(Inject { kinds: k, payload, len: kinds.len(), pos: 0, mask: MASK_ALL });
    p.scanner.verif_set_stream_flags(true, false);
    p.state = State::BlockNode;
    p.states.push(State::DocumentEnd);
    let mut h = 0;
    while h < 4 {
        if table_mask & (1 << h) != 0 {
            p.tags.insert(String::from(DIRECTIVES[h].0), String::from(DIRECTIVES[h].1));
        }
        h += 1;
    }
    if sym::playback() {
        eprintln!("VERIF-INPUT tag_choice={} table_mask={:#b} with_anchor={}", tagsel, table_mask, with_anchor);
    }
    let r = p.parse();
    // scanner spellings: 0 ("!!","s")  1 ("!a!","s")  2 ("!b!","s")  3 ("!c!","s")  4 ("!","s")  5 ("","v") verbatim  6 ("","!") non-specific
    let bound = |h: usize| table_mask & (1 << h) != 0;
    // expected (prefix, suffix) or error
    let (want_err, want_prefix, want_suffix): (bool, &str, &str) = match tagsel {
        0 => (false, if bound(2) { "p3:" } else { "tag:yaml.org,2002:" }, "s"),
        1 => (!bound(0), "p1:", "s"),
        2 => (!bound(1), "p2:", "s"),
        3 => (true, "", "s"),
        4 => (false, if bound(3) { "p4:" } else { "!" }, "s"),
        5 => (false, "", "v"),
        _ => (false, "", "!"),
    };
    match &r {
        Ok((Event::Scalar(_, _, _, Some(tag)), _)) => {
            assert!(!want_err, "C16: a named tag handle that was never declared is accepted");
            assert!(same_str(&tag.handle, want_prefix), "C16: tag prefix is not the one bound to the handle");
            assert!(same_str(&tag.suffix, want_suffix), "C16: tag suffix changed");
            kani::cover!(tagsel == 0, "must: secondary handle resolved");
        }
        Ok(_) => assert!(false, "C16: tagged scalar lost its tag"),
        Err(_) => {
            assert!(want_err, "C16: a declared or local tag is rejected");
            kani::cover!(true, "undeclared handle rejected");
        }
    }
    std::mem::forget(r);
    std::mem::forget(p);
}
macro_rules! resolve_harness {
    ($name:ident, $mask:expr, $anchor:expr) => {
        #[kani::proof]
        #[kani::unwind(8)]
        pub fn $name() {
            resolve_scenario($mask, $anchor);
        }
    };
}
resolve_harness!(c16_resolve_no_directives, 0b0000, false);
resolve_harness!(c16_resolve_named_only, 0b0011, true);
resolve_harness!(c16_resolve_secondary_and_primary, 0b1100, false);
resolve_harness!(c16_resolve_only_b, 0b0010, false);

// ------------------------------------------------------------------------------------------------
// C17: peek / next agree with plain iteration; the stream is fused after StreamEnd.
// ------------------------------------------------------------------------------------------------

/// The peek/next wrappers over a symbolic look-ahead state: `current` holds an event or not,
/// `stream_end_emitted` is set or not (never both), next token concrete (a scalar).
fn peek_next_wrapper_state(cached: bool, emitted: bool, first_is_peek: bool) {
    let mut k = [0u8; MAXTOK];
    k[0] = tk::SCALAR;
    let mut p = Parser::new(StrInput::new(""));
    p.scanner.verif_inject = Some(Inject { kinds: k, payload: [0u8; MAXTOK], len: 1, pos: 0, mask: MASK_NO_TAGS });
    p.scanner.verif_set_stream_flags(true, false);
    p.state = State::BlockNode;
    p.states.push(State::DocumentEnd);
    // the span of the cached event is symbolic; the look-ahead state and the first call are harness
    // parameters (symbolic flags join parser states and the run does not finish)
    let a: usize = kani::any();
    kani::assume(a < 1000);
    let sp = Span::new(Marker::new(a, 2, 3), Marker::new(a + 1, 2, 4));
    if cached {
        p.current = Some((Event::SequenceEnd, sp));
    }
    p.stream_end_emitted = emitted;
    if sym::playback() {
        eprintln!("VERIF-INPUT look_ahead_cached={} stream_end_emitted={}", cached, emitted);
    }
    if first_is_peek {
        let r = p.peek();
        if emitted {
            assert!(r.is_none(), "C17: peek returns something after StreamEnd was delivered");
        } else if cached {
            assert!(matches!(r, Some(Ok((Event::SequenceEnd, s))) if *s == sp), "C17: peek does not show the cached event");
        } else {
            assert!(matches!(r, Some(Ok((Event::Scalar(..), _)))), "C17: peek does not show the next event");
        }
        assert!(emitted || p.current.is_some(), "C17: peek did not keep the event for the following next");
    }
    let pos_before = p.scanner.verif_inject.as_ref().unwrap().pos;
    let had_cache = p.current.is_some();
    let r = p.next_event();
    if emitted {
        assert!(r.is_none(), "C17: next returns something after StreamEnd was delivered");
    } else if cached {
        assert!(matches!(&r, Some(Ok((Event::SequenceEnd, s))) if *s == sp), "C17: next does not return the cached event");
    } else {
        assert!(matches!(&r, Some(Ok((Event::Scalar(..), _)))), "C17: next does not return the next event");
    }
    if had_cache {
        assert!(p.scanner.verif_inject.as_ref().unwrap().pos == pos_before, "C17: next read a token although an event was cached");
    }
    assert!(p.current.is_none(), "C17: next left a cached event behind");
    kani::cover!(true, "must: compared");
    std::mem::forget(r);
    std::mem::forget(p);
}
macro_rules! wrapper_harness {
    ($name:ident, $cached:expr, $emitted:expr, $peek:expr) => {
        #[kani::proof]
        #[kani::unwind(6)]
        pub fn $name() {
            peek_next_wrapper_state($cached, $emitted, $peek);
        }
    };
}
wrapper_harness!(c17_wrapper_cached_peek_next, true, false, true);
wrapper_harness!(c17_wrapper_cached_next, true, false, false);
// (fresh look-ahead, peek then next: 25 GB / not finished - the second call re-explores the parser)
wrapper_harness!(c17_wrapper_fresh_next, false, false, false);
wrapper_harness!(c17_wrapper_ended_peek_next, false, true, true);
wrapper_harness!(c17_wrapper_ended_next, false, true, false);

/// Fuse: from the state just before the end of the stream (token template [StreamEnd]) a history of
/// four peek/next calls (the history is a harness parameter: a symbolic history joins parser states
/// and makes every later call symbolic) behaves like the reference: peek shows StreamEnd until a
/// next has returned it; after that next and peek return nothing.
fn fuse(ops: [bool; 4], implicit: bool) {
    let mut k = [0u8; MAXTOK];
    k[0] = tk::STREAM_END;
    let mut p = Parser::new(StrInput::new(""));
    p.scanner.verif_inject = Some(Inject { kinds: k, payload: [0u8; MAXTOK], len: 1, pos: 0, mask: MASK_NO_TAGS });
    p.scanner.verif_set_stream_flags(true, false);
    p.state = if implicit { State::ImplicitDocumentStart } else { State::DocumentStart };
    let mut ended = false;
    let mut i = 0;
    while i < 4 {
        if ops[i] {
            let r = p.peek();
            if ended {
                assert!(r.is_none(), "C17: peek returns something after StreamEnd was delivered");
            } else {
                assert!(matches!(r, Some(Ok((Event::StreamEnd, _)))), "C17: peek does not show the pending StreamEnd");
            }
        } else {
            let r = p.next_event();
            if ended {
                assert!(r.is_none(), "C17: next returns something after StreamEnd was delivered");
            } else {
                assert!(matches!(r, Some(Ok((Event::StreamEnd, _)))), "C17: next does not deliver StreamEnd");
                ended = true;
            }
            std::mem::forget(r);
        }
        i += 1;
    }
    kani::cover!(true, "must: history replayed");
    std::mem::forget(p);
}
macro_rules! fuse_harness {
    ($name:ident, $implicit:expr, $a:expr, $b:expr, $c:expr, $d:expr) => {
        #[kani::proof]
        #[kani::unwind(6)]
        pub fn $name() {
            fuse([$a, $b, $c, $d], $implicit);
        }
    };
}
// true = peek, false = next
fuse_harness!(c17_fuse_peek_next_next_peek, true, true, false, false, true);
fuse_harness!(c17_fuse_next_next_peek_next, false, false, false, true, false);
fuse_harness!(c17_fuse_peek_peek_next_next, true, true, true, false, false);
fuse_harness!(c17_fuse_next_peek_next_peek, false, false, true, false, true);

/// C06: an alias whose anchor was never defined is an error; an alias to a defined anchor yields
/// the id recorded for it.
#[kani::proof]
#[kani::unwind(10)]
pub fn c06_alias_without_anchor() {
    let mut k = [0u8; MAXTOK];
    k[0] = tk::ALIAS;
    let mut payload = [0u8; MAXTOK];
    let which: u8 = kani::any();
    kani::assume(which < 3);
    payload[0] = which;
    let mut p = Parser::new(StrInput::new(""));
    p.scanner.verif_inject = Some(Inject { kinds: k, payload, len: 1, pos: 0, mask: MASK_ALL });
    p.scanner.verif_set_stream_flags(true, false);
    p.state = State::BlockNode;
    p.states.push(State::DocumentEnd);
    let id1: usize = kani::any();
    let id2: usize = kani::any();
    kani::assume(id1 >= 1 && id1 < 100 && id2 >= 1 && id2 < 100);
    p.anchor_id_count = 100;
    p.anchors.insert(Cow::Borrowed(NAMES[0]), id1);
    p.anchors.insert(Cow::Borrowed(NAMES[1]), id2);
    if sym::playback() {
        eprintln!("VERIF-INPUT alias_name={} anchors: a={} b={}", NAMES[which as usize], id1, id2);
    }
    let r = p.parse();
    match &r {
        Ok((Event::Alias(id), _)) => {
            assert!(which < 2, "C06: alias without a preceding anchor accepted");
            assert!(*id == if which == 0 { id1 } else { id2 }, "C02: alias carries the id of another anchor");
        }
        Ok(_) => assert!(false, "C02: alias token did not produce an alias event"),
        Err(_) => assert!(which == 2, "C06: alias to a defined anchor rejected"),
    }
    kani::cover!(r.is_err(), "must: unknown anchor rejected");
    kani::cover!(r.is_ok(), "must: known anchor accepted");
    std::mem::forget(r);
    std::mem::forget(p);
}


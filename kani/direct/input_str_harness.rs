//! Kani harnesses compiled inside `saphyr_parser::input::str` as a child module (sees private items).
//! C10: every overridden method of `StrInput` agrees (result and post-state) with the trait's default
//! body, which is what `BufferedInput` and custom inputs run. C12: counts returned by bulk operations
//! are character counts. C01: no method panics / indexes out of bounds on any valid UTF-8 buffer.
#![allow(dead_code, unused_imports, clippy::all)]
use super::*;

#[path = "/verif/kani/common/sym.rs"]
pub mod sym;

#[cfg(test)]
mod playback {
    use super::*;
    include!("/verif/.work/playback/input_str.rs");
}

/// Forwards only the REQUIRED methods of `Input` to a `StrInput`, so that every provided (default)
/// method body of the trait runs on top of them.
pub struct Defaults<'a>(pub StrInput<'a>);
impl Input for Defaults<'_> {
    fn lookahead(&mut self, count: usize) {
        self.0.lookahead(count)
    }
    fn buflen(&self) -> usize {
        self.0.buflen()
    }
    fn bufmaxlen(&self) -> usize {
        self.0.bufmaxlen()
    }
    fn raw_read_ch(&mut self) -> char {
        self.0.raw_read_ch()
    }
    fn raw_read_non_breakz_ch(&mut self) -> Option<char> {
        self.0.raw_read_non_breakz_ch()
    }
    fn skip(&mut self) {
        self.0.skip()
    }
    fn skip_n(&mut self, count: usize) {
        self.0.skip_n(count)
    }
    fn peek(&self) -> char {
        self.0.peek()
    }
    fn peek_nth(&self, n: usize) -> char {
        self.0.peek_nth(n)
    }
}

pub const MAXB: usize = 8;

/// A symbolic valid UTF-8 text of up to `nchars` characters (each: any ASCII incl. NUL, or a 2-, 3-
/// or 4-byte scalar value) and at most MAXB bytes, written into `buf`; returns the byte length.
/// Built by encoding symbolic scalar values, so no `str::from_utf8` validation is needed.
fn sym_utf8(buf: &mut [u8; MAXB], nchars: usize) -> usize {
    let mut n = 0;
    let count: usize = kani::any();
    kani::assume(count <= nchars);
    let mut i = 0;
    while i < nchars {
        if i < count {
            let c: u32 = kani::any();
            kani::assume(c <= 0x10FFFF && !(c >= 0xD800 && c <= 0xDFFF));
            if c < 0x80 {
                kani::assume(n + 1 <= MAXB);
                buf[n] = c as u8;
                n += 1;
            } else if c < 0x800 {
                kani::assume(n + 2 <= MAXB);
                buf[n] = 0xC0 | (c >> 6) as u8;
                buf[n + 1] = 0x80 | (c & 0x3F) as u8;
                n += 2;
            } else if c < 0x10000 {
                kani::assume(n + 3 <= MAXB);
                buf[n] = 0xE0 | (c >> 12) as u8;
                buf[n + 1] = 0x80 | ((c >> 6) & 0x3F) as u8;
                buf[n + 2] = 0x80 | (c & 0x3F) as u8;
                n += 3;
            } else {
                kani::assume(n + 4 <= MAXB);
                buf[n] = 0xF0 | (c >> 18) as u8;
                buf[n + 1] = 0x80 | ((c >> 12) & 0x3F) as u8;
                buf[n + 2] = 0x80 | ((c >> 6) & 0x3F) as u8;
                buf[n + 3] = 0x80 | (c & 0x3F) as u8;
                n += 4;
            }
        }
        i += 1;
    }
    n
}

fn as_str(buf: &[u8; MAXB], n: usize) -> &str {
    sym::note_bytes("buffer", &buf[..n]);
    unsafe { std::str::from_utf8_unchecked(&buf[..n]) }
}

/// Number of characters in the first `nbytes` bytes of valid UTF-8 `b` (counts non-continuation bytes).
fn chars_in(b: &[u8], nbytes: usize) -> usize {
    let mut k = 0;
    let mut i = 0;
    while i < nbytes {
        if b[i] & 0xC0 != 0x80 {
            k += 1;
        }
        i += 1;
    }
    k
}

fn same_state(a: &StrInput, d: &Defaults) -> bool {
    a.buffer.len() == d.0.buffer.len() && a.lookahead == d.0.lookahead
}

fn skiptabs_eq(a: &Result<SkipTabs, &'static str>, b: &Result<SkipTabs, &'static str>) -> bool {
    match (a, b) {
        (Ok(x), Ok(y)) => x == y,
        (Err(x), Err(y)) => x.len() == y.len(),
        _ => false,
    }
}

macro_rules! pure_method_harness {
    ($name:ident, $nchars:expr, |$a:ident, $d:ident| $body:block) => {
        #[kani::proof]
        #[kani::unwind(10)]
        pub fn $name() {
            let mut buf = [0u8; MAXB];
            let n = sym_utf8(&mut buf, $nchars);
            let s = as_str(&buf, n);
            let mut $a = StrInput::new(s);
            let mut $d = Defaults(StrInput::new(s));
            // the scanner calls these only after the look-ahead the default bodies assert
            $a.lookahead(4);
            $d.lookahead(4);
            $body;
            assert!(same_state(&$a, &$d), "C10: StrInput and the default implementation leave different input states");
            kani::cover!(n >= 4, "must: buffer of 4+ bytes reached");
        }
    };
}

fn sym_char() -> char {
    let c: u32 = kani::any();
    kani::assume(c <= 0x10FFFF && !(c >= 0xD800 && c <= 0xDFFF));
    unsafe { char::from_u32_unchecked(c) }
}

pure_method_harness!(c10_look_ch, 4, |a, d| {
    assert!(a.look_ch() == d.look_ch(), "C10: look_ch differs");
});
pure_method_harness!(c10_next_char_is, 4, |a, d| {
    let c = sym_char();
    assert!(a.next_char_is(c) == d.next_char_is(c), "C10: next_char_is differs");
});
pure_method_harness!(c10_nth_char_is, 4, |a, d| {
    let c = sym_char();
    let k: usize = kani::any();
    kani::assume(k < 4);
    assert!(a.nth_char_is(k, c) == d.nth_char_is(k, c), "C10: nth_char_is differs");
});
pure_method_harness!(c10_next_2_are, 4, |a, d| {
    let c1 = sym_char();
    let c2 = sym_char();
    // callers never ask for NUL (the end-of-input padding character)
    kani::assume(c1 != '\0' && c2 != '\0');
    assert!(a.next_2_are(c1, c2) == d.next_2_are(c1, c2), "C10: next_2_are differs");
});
pure_method_harness!(c10_next_3_are, 4, |a, d| {
    let c1 = sym_char();
    let c2 = sym_char();
    let c3 = sym_char();
    kani::assume(c1 != '\0' && c2 != '\0' && c3 != '\0');
    assert!(a.next_3_are(c1, c2, c3) == d.next_3_are(c1, c2, c3), "C10: next_3_are differs");
});
pure_method_harness!(c10_next_is_document_indicator, 5, |a, d| {
    assert!(a.next_is_document_indicator() == d.next_is_document_indicator(), "C10: next_is_document_indicator differs");
});
pure_method_harness!(c10_next_is_document_start, 5, |a, d| {
    let r = a.next_is_document_start();
    assert!(r == d.next_is_document_start(), "C10: next_is_document_start differs");
    kani::cover!(r, "must: document start recognised");
});
pure_method_harness!(c10_next_is_document_end, 5, |a, d| {
    let r = a.next_is_document_end();
    assert!(r == d.next_is_document_end(), "C10: next_is_document_end differs");
    kani::cover!(r, "must: document end recognised");
});
pure_method_harness!(c10_next_can_be_plain_scalar, 4, |a, d| {
    // documented precondition: not at a blank / break / end of input
    kani::assume(!d.next_is_blank_or_breakz());
    let in_flow: bool = kani::any();
    let r = a.next_can_be_plain_scalar(in_flow);
    assert!(r == d.next_can_be_plain_scalar(in_flow), "C10: next_can_be_plain_scalar differs");
    kani::cover!(!r, "must: plain scalar end recognised");
});
pure_method_harness!(c10_char_classes, 4, |a, d| {
    assert!(a.next_is_blank_or_break() == d.next_is_blank_or_break(), "C10: next_is_blank_or_break differs");
    assert!(a.next_is_blank_or_breakz() == d.next_is_blank_or_breakz(), "C10: next_is_blank_or_breakz differs");
    assert!(a.next_is_blank() == d.next_is_blank(), "C10: next_is_blank differs");
    assert!(a.next_is_break() == d.next_is_break(), "C10: next_is_break differs");
    assert!(a.next_is_breakz() == d.next_is_breakz(), "C10: next_is_breakz differs");
    assert!(a.next_is_z() == d.next_is_z(), "C10: next_is_z differs");
    assert!(a.next_is_flow() == d.next_is_flow(), "C10: next_is_flow differs");
    assert!(a.next_is_digit() == d.next_is_digit(), "C10: next_is_digit differs");
    assert!(a.next_is_alpha() == d.next_is_alpha(), "C10: next_is_alpha differs");
    assert!(a.buf_is_empty() == d.buf_is_empty(), "C10: buf_is_empty differs");
});

/// skip_ws_to_eol: same result, same count, same remaining input; and the count is a CHARACTER count.
fn skip_ws_to_eol_diff(nchars: usize) {
    let mut buf = [0u8; MAXB];
    let n = sym_utf8(&mut buf, nchars);
    let s = as_str(&buf, n);
    let mut a = StrInput::new(s);
    let mut d = Defaults(StrInput::new(s));
    let tabs = if kani::any() { SkipTabs::Yes } else { SkipTabs::No };
    let (ca, ra) = a.skip_ws_to_eol(tabs);
    let (cd, rd) = d.skip_ws_to_eol(tabs);
    assert!(skiptabs_eq(&ra, &rd), "C10: skip_ws_to_eol result differs");
    assert!(a.buffer.len() == d.0.buffer.len(), "C10: skip_ws_to_eol consumed a different amount of input");
    if ra.is_ok() {
        assert!(ca == cd, "C10: skip_ws_to_eol reports a different count");
        let consumed_bytes = n - a.buffer.len();
        assert!(ca == chars_in(&buf, consumed_bytes), "C12: skip_ws_to_eol count is not the number of characters consumed");
    }
    kani::cover!(ra.is_ok() && ca >= 2, "must: two characters skipped");
    kani::cover!(ra.is_err(), "must: comment without separation rejected");
}

#[kani::proof]
#[kani::unwind(6)]
pub fn c10_skip_ws_to_eol() {
    skip_ws_to_eol_diff(2);
}
#[kani::proof]
#[kani::unwind(8)]
pub fn c10_skip_ws_to_eol_3() {
    skip_ws_to_eol_diff(3);
}

#[kani::proof]
#[kani::unwind(10)]
pub fn c10_skip_while_non_breakz() {
    let mut buf = [0u8; MAXB];
    let n = sym_utf8(&mut buf, 5);
    let s = as_str(&buf, n);
    let mut a = StrInput::new(s);
    let mut d = Defaults(StrInput::new(s));
    let ca = a.skip_while_non_breakz();
    let cd = d.skip_while_non_breakz();
    assert!(ca == cd, "C10: skip_while_non_breakz count differs");
    assert!(a.buffer.len() == d.0.buffer.len(), "C10: skip_while_non_breakz consumed a different amount of input");
    assert!(ca == chars_in(&buf, n - a.buffer.len()), "C12: skip_while_non_breakz count is not a character count");
    kani::cover!(ca >= 2 && n - a.buffer.len() > ca, "must: multi-byte characters skipped");
}

#[kani::proof]
#[kani::unwind(10)]
pub fn c10_skip_while_blank() {
    let mut buf = [0u8; MAXB];
    let n = sym_utf8(&mut buf, 5);
    let s = as_str(&buf, n);
    let mut a = StrInput::new(s);
    let mut d = Defaults(StrInput::new(s));
    let ca = a.skip_while_blank();
    let cd = d.skip_while_blank();
    assert!(ca == cd, "C10: skip_while_blank count differs");
    assert!(a.buffer.len() == d.0.buffer.len(), "C10: skip_while_blank consumed a different amount of input");
    assert!(ca == chars_in(&buf, n - a.buffer.len()), "C12: skip_while_blank count is not a character count");
    kani::cover!(ca >= 2, "must: two blanks skipped");
}

/// fetch_while_is_alpha with a small sink: compared through the returned count and the remaining
/// input (the appended text is the consumed prefix in both implementations by construction of the
/// check on the remaining input and count).
#[kani::proof]
#[kani::unwind(10)]
pub fn c10_fetch_while_is_alpha() {
    let mut buf = [0u8; MAXB];
    let n = sym_utf8(&mut buf, 4);
    let s = as_str(&buf, n);
    let mut a = StrInput::new(s);
    let mut d = Defaults(StrInput::new(s));
    let mut oa = String::new();
    let mut od = String::new();
    let ca = a.fetch_while_is_alpha(&mut oa);
    let cd = d.fetch_while_is_alpha(&mut od);
    assert!(ca == cd, "C10: fetch_while_is_alpha count differs");
    assert!(a.buffer.len() == d.0.buffer.len(), "C10: fetch_while_is_alpha consumed a different amount of input");
    assert!(oa.len() == od.len() && oa.len() == n - a.buffer.len(), "C10: fetch_while_is_alpha appended text differs");
    assert!(ca == chars_in(&buf, n - a.buffer.len()), "C12: fetch_while_is_alpha count is not a character count");
    kani::cover!(ca >= 2, "must: two alpha characters fetched");
    kani::cover!(ca >= 1 && a.buffer.len() >= 2 && a.buffer.as_bytes()[0] >= 0x80, "must: alpha run ended by a multi-byte character");
    std::mem::forget(oa);
    std::mem::forget(od);
}

/// Required methods after an arbitrary history of `skip`/`skip_n`/`raw_read*`: never panic, never
/// leave the buffer off a character boundary (no byte index inside a character).
#[kani::proof]
#[kani::unwind(10)]
pub fn c01_strinput_required_methods_no_panic() {
    let mut buf = [0u8; MAXB];
    let n = sym_utf8(&mut buf, 4);
    let s = as_str(&buf, n);
    let mut a = StrInput::new(s);
    let mut step = 0;
    while step < 3 {
        let op: u8 = kani::any();
        kani::assume(op < 6);
        match op {
            0 => a.skip(),
            1 => {
                let k: usize = kani::any();
                kani::assume(k <= 5);
                a.skip_n(k)
            }
            2 => {
                let _ = a.raw_read_ch();
            }
            3 => {
                let _ = a.raw_read_non_breakz_ch();
            }
            4 => {
                let k: usize = kani::any();
                kani::assume(k <= 5);
                let _ = a.peek_nth(k);
            }
            _ => {
                let _ = a.peek();
            }
        }
        let rem = a.buffer.len();
        assert!(rem <= n, "C01: input grew");
        assert!(rem == 0 || buf[n - rem] & 0xC0 != 0x80, "C01: StrInput left the buffer inside a character");
        step += 1;
    }
}

impl StrInput<'_> {
    /// Bytes of input not yet consumed (harness accessor).
    pub(crate) fn verif_remaining(&self) -> usize {
        self.buffer.len()
    }
}

/// Native confirmation for a failure that Kani reports inside std (a slicing panic has no harness
/// assertion to replay): run the method pairs natively on every text of up to 3 characters over a
/// small alphabet with 1-4 byte characters and report the first panic or disagreement.
#[cfg(test)]
#[test]
fn c10_native_probe() {
    let alphabet: [&str; 10] = ["a", "-", " ", "\t", "#", "\n", ":", "\u{e9}", "\u{20ac}", "\u{1F600}"];
    let mut texts: Vec<String> = vec![String::new()];
    let mut level: Vec<String> = vec![String::new()];
    for _ in 0..3 {
        let mut next = Vec::new();
        for t in &level {
            for a in alphabet {
                let mut s = t.clone();
                s.push_str(a);
                next.push(s);
            }
        }
        texts.extend(next.iter().cloned());
        level = next;
    }
    for text in &texts {
        let r = std::panic::catch_unwind(|| {
            let mut a = StrInput::new(text);
            let mut d = Defaults(StrInput::new(text));
            let (mut oa, mut od) = (String::new(), String::new());
            let ca = a.fetch_while_is_alpha(&mut oa);
            let cd = d.fetch_while_is_alpha(&mut od);
            assert!(ca == cd && oa == od && a.buffer == d.0.buffer, "fetch_while_is_alpha differs");
            let mut a = StrInput::new(text);
            let mut d = Defaults(StrInput::new(text));
            assert!(a.skip_while_non_breakz() == d.skip_while_non_breakz() && a.buffer == d.0.buffer, "skip_while_non_breakz differs");
            let mut a = StrInput::new(text);
            let mut d = Defaults(StrInput::new(text));
            assert!(a.skip_while_blank() == d.skip_while_blank() && a.buffer == d.0.buffer, "skip_while_blank differs");
            for tabs in [SkipTabs::Yes, SkipTabs::No] {
                let mut a = StrInput::new(text);
                let mut d = Defaults(StrInput::new(text));
                let (ca, ra) = a.skip_ws_to_eol(tabs);
                let (cd, rd) = d.skip_ws_to_eol(tabs);
                assert!(ra.is_ok() == rd.is_ok() && (ra.is_err() || ca == cd) && a.buffer == d.0.buffer, "skip_ws_to_eol differs");
            }
            if !text.is_empty() {
                let mut a = StrInput::new(text);
                let mut d = Defaults(StrInput::new(text));
                a.lookahead(4);
                d.lookahead(4);
                if !d.next_is_blank_or_breakz() {
                    for f in [false, true] {
                        assert!(a.next_can_be_plain_scalar(f) == d.next_can_be_plain_scalar(f), "next_can_be_plain_scalar differs");
                    }
                }
                assert!(a.next_is_document_indicator() == d.next_is_document_indicator(), "next_is_document_indicator differs");
            }
        });
        if r.is_err() {
            eprintln!("VERIF-INPUT text={:?}", text);
            panic!("C10/C01: StrInput panics or disagrees with the default implementation");
        }
    }
}

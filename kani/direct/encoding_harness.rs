//! Kani harnesses compiled inside `saphyr::encoding` as a child module (sees private items).
//! C18: encoding decision (BOM sniffing + UTF-16 endianness detection) and decode_loop termination.
#![allow(dead_code, unused_imports, clippy::all)]
use super::*;

#[path = "/verif/kani/common/sym.rs"]
pub mod sym;

#[cfg(test)]
mod playback {
    use super::*;
    include!("/verif/.work/playback/encoding.rs");
}

/// The encoding `YamlDecoder::decode` selects for a buffer (the two lines of `decode` that decide).
fn selected(buffer: &[u8]) -> &'static Encoding {
    let (encoding, _) =
        Encoding::for_bom(buffer).unwrap_or_else(|| (detect_utf16_endianness(buffer), 2));
    encoding
}

fn same(a: &'static Encoding, b: &'static Encoding) -> bool {
    std::ptr::eq(a, b)
}

/// Text = one ASCII char `c` (1..=0x7F) optionally followed by one more BMP, non-NUL, non-surrogate
/// character `d`; encoded in each of the 6 encodings; the decoder must select the encoding used.
#[kani::proof]
#[kani::unwind(8)]
pub fn c18_selects_encoding_used() {
    let c: u8 = kani::any();
    kani::assume(c >= 1 && c < 0x80);
    let has_d: bool = kani::any();
    let d: u16 = kani::any();
    kani::assume(d != 0 && !(d >= 0xD800 && d <= 0xDFFF) && d != 0xFEFF && d != 0xFFFE);
    let which: u8 = kani::any();
    kani::assume(which < 6);
    if sym::playback() {
        eprintln!("VERIF-INPUT c={:#x} has_d={} d={:#x} encoding_choice={}", c, has_d, d, which);
    }
    let mut buf = [0u8; 8];
    let mut n = 0;
    // 0 utf8, 1 utf8+bom, 2 utf16le, 3 utf16le+bom, 4 utf16be, 5 utf16be+bom
    match which {
        1 => {
            buf[0] = 0xEF;
            buf[1] = 0xBB;
            buf[2] = 0xBF;
            n = 3;
        }
        3 => {
            buf[0] = 0xFF;
            buf[1] = 0xFE;
            n = 2;
        }
        5 => {
            buf[0] = 0xFE;
            buf[1] = 0xFF;
            n = 2;
        }
        _ => {}
    }
    match which {
        0 | 1 => {
            buf[n] = c;
            n += 1;
            if has_d {
                // UTF-8 encoding of d (1..3 bytes)
                if d < 0x80 {
                    buf[n] = d as u8;
                    n += 1;
                } else if d < 0x800 {
                    buf[n] = 0xC0 | (d >> 6) as u8;
                    buf[n + 1] = 0x80 | (d & 0x3F) as u8;
                    n += 2;
                } else {
                    buf[n] = 0xE0 | (d >> 12) as u8;
                    buf[n + 1] = 0x80 | ((d >> 6) & 0x3F) as u8;
                    buf[n + 2] = 0x80 | (d & 0x3F) as u8;
                    n += 3;
                }
            }
        }
        2 | 3 => {
            buf[n] = c;
            buf[n + 1] = 0;
            n += 2;
            if has_d {
                buf[n] = (d & 0xFF) as u8;
                buf[n + 1] = (d >> 8) as u8;
                n += 2;
            }
        }
        _ => {
            buf[n] = 0;
            buf[n + 1] = c;
            n += 2;
            if has_d {
                buf[n] = (d >> 8) as u8;
                buf[n + 1] = (d & 0xFF) as u8;
                n += 2;
            }
        }
    }
    let enc = selected(&buf[..n]);
    match which {
        0 | 1 => assert!(same(enc, encoding_rs::UTF_8), "C18: UTF-8 text not decoded as UTF-8"),
        2 | 3 => assert!(same(enc, encoding_rs::UTF_16LE), "C18: UTF-16LE text not decoded as UTF-16LE"),
        _ => assert!(same(enc, encoding_rs::UTF_16BE), "C18: UTF-16BE text not decoded as UTF-16BE"),
    }
    kani::cover!(which == 2 && has_d, "must: utf16le without bom reached");
    kani::cover!(which == 4 && !has_d, "must: utf16be single char reached");
    kani::cover!(which == 0 && has_d && d >= 0x800, "must: utf8 3-byte second char reached");
}

/// Empty input and one-byte inputs select UTF-8 (and never index out of bounds).
#[kani::proof]
#[kani::unwind(8)]
pub fn c18_detect_short_inputs() {
    let b: [u8; 3] = kani::any();
    let n: usize = kani::any();
    kani::assume(n <= 3);
    let e = detect_utf16_endianness(&b[..n]);
    if n < 2 {
        assert!(same(e, encoding_rs::UTF_8), "C18: short input must fall back to UTF-8");
    }
    kani::cover!(n == 0, "must: empty reached");
}

fn trap_cb(
    _malformation_length: u8,
    _bytes_read_after_malformation: u8,
    _input_at_malformation: &[u8],
    _output: &mut String,
) -> ControlFlow<Cow<'static, str>> {
    ControlFlow::Continue(())
}
fn trap_cb_break(
    _malformation_length: u8,
    _bytes_read_after_malformation: u8,
    _input_at_malformation: &[u8],
    _output: &mut String,
) -> ControlFlow<Cow<'static, str>> {
    ControlFlow::Break(Cow::Borrowed("stop"))
}

fn sym_trap() -> (YAMLDecodingTrap, u8) {
    let k: u8 = kani::any();
    kani::assume(k < 5);
    (
        match k {
            0 => YAMLDecodingTrap::Ignore,
            1 => YAMLDecodingTrap::Strict,
            2 => YAMLDecodingTrap::Replace,
            3 => YAMLDecodingTrap::Call(trap_cb),
            _ => YAMLDecodingTrap::Call(trap_cb_break),
        },
        k,
    )
}

/// `encoding_rs::pointer_escapes` is an optimisation barrier (`asm!("/* {0} */")`, no semantic
/// effect, replaced by an empty function under Miri by encoding_rs itself); Kani has no inline asm.
unsafe fn pointer_escapes_noop(_ptr: *mut std::mem::MaybeUninit<u8>) {}

fn fmt_stub(_args: std::fmt::Arguments<'_>) -> String {
    String::new()
}

/// decode_loop on every input of `N` or fewer bytes, real encoding_rs decoder: terminates within the
/// unwinding bound (each iteration finishes, consumes a malformed sequence, or grows the output by
/// enough for the next character), never panics; strict trap + malformed input => Err.
fn decode_loop_terminates<const N: usize>(enc: &'static Encoding) {
    let bytes: [u8; N] = kani::any();
    let len: usize = kani::any();
    kani::assume(len <= N);
    let (trap, k) = sym_trap();
    if sym::playback() {
        eprintln!("VERIF-INPUT encoding={} bytes={:?} trap_choice={}", enc.name(), &bytes[..len], k);
    }
    let mut decoder = enc.new_decoder_without_bom_handling();
    let mut output = String::new();
    let r = decode_loop(&bytes[..len], &mut output, &mut decoder, trap);
    kani::cover!(r.is_ok() && len == N, "must: full-length input decoded");
    kani::cover!(r.is_err(), "must: decode error reached");
    std::mem::forget(r);
    std::mem::forget(output);
}

#[kani::proof]
#[kani::unwind(12)]
#[kani::stub(alloc::fmt::format, fmt_stub)]
#[kani::stub(encoding_rs::pointer_escapes, pointer_escapes_noop)]
pub fn c18_decode_loop_utf16le_4() {
    decode_loop_terminates::<4>(encoding_rs::UTF_16LE);
}
#[kani::proof]
#[kani::unwind(12)]
#[kani::stub(alloc::fmt::format, fmt_stub)]
#[kani::stub(encoding_rs::pointer_escapes, pointer_escapes_noop)]
pub fn c18_decode_loop_utf16be_4() {
    decode_loop_terminates::<4>(encoding_rs::UTF_16BE);
}
#[kani::proof]
#[kani::unwind(12)]
#[kani::stub(alloc::fmt::format, fmt_stub)]
#[kani::stub(encoding_rs::pointer_escapes, pointer_escapes_noop)]
pub fn c18_decode_loop_utf8_4() {
    decode_loop_terminates::<4>(encoding_rs::UTF_8);
}

// ------------------------------------------------------------------------------------------------
// decode_loop termination against the decoder CONTRACT (the real encoding_rs decoders do not finish
// under Kani: symex of the UTF-16/UTF-8 fast paths explodes for 4 symbolic bytes, DESIGN.md).
// ------------------------------------------------------------------------------------------------

/// Abstract output buffer: length and capacity of the output string as numbers. A real `String`
/// whose length is symbolic makes every growth step a symbolic-size realloc+copy; the termination
/// argument only depends on `capacity - len`, so both the decoder stub and `String::reserve` work on
/// this model. `reserve` is modelled by its CONTRACT with the least growth it allows
/// (`capacity >= len + additional` afterwards, nothing more) - the adversarial case for termination.
static mut MODEL_LEN: usize = 0;
static mut MODEL_CAP: usize = 0;
/// Total output a decoder can produce for the whole input (3 bytes per input byte + 4).
static mut MODEL_BUDGET: usize = 0;
static mut MODEL_WRITTEN: usize = 0;

fn model_reserve(_s: &mut String, additional: usize) {
    unsafe {
        if MODEL_CAP - MODEL_LEN < additional {
            MODEL_CAP = MODEL_LEN + additional;
        }
    }
}

fn model_push(_s: &mut String, c: char) {
    let n = c.len_utf8();
    unsafe {
        if MODEL_CAP - MODEL_LEN < n {
            MODEL_CAP = MODEL_LEN + n;
        }
        MODEL_LEN += n;
    }
}

/// Contract stub for `Decoder::decode_to_string_without_replacement` (encoding_rs documentation):
/// * reads `read <= src.len()` bytes, appends `written <= spare capacity` bytes to `dst`;
/// * `InputEmpty` only with `read == src.len()`;
/// * `OutputFull` without progress (`read == 0 && written == 0`) only if fewer than 4 bytes of spare
///   capacity are available (a UTF-8 encoded scalar value needs at most 4);
/// * `Malformed(len, after)` with `1 <= len`, `len + after <= read` and `read >= 1`.
fn decode_contract_stub(_this: &mut Decoder, src: &[u8], _dst: &mut String, _last: bool) -> (DecoderResult, usize) {
    let spare = unsafe { MODEL_CAP - MODEL_LEN };
    let read: usize = kani::any();
    kani::assume(read <= src.len());
    let written: usize = kani::any();
    kani::assume(written <= spare && unsafe { MODEL_WRITTEN } + written <= unsafe { MODEL_BUDGET });
    unsafe {
        MODEL_LEN += written;
        MODEL_WRITTEN += written;
    }
    let k: u8 = kani::any();
    kani::assume(k < 3);
    match k {
        0 => {
            kani::assume(read == src.len());
            (DecoderResult::InputEmpty, read)
        }
        1 => {
            kani::assume(read > 0 || written > 0 || spare < 4);
            (DecoderResult::OutputFull, read)
        }
        _ => {
            let len: u8 = kani::any();
            let after: u8 = kani::any();
            kani::assume(read >= 1 && len >= 1 && (len as usize) + (after as usize) <= read);
            (DecoderResult::Malformed(len, after), read)
        }
    }
}

/// For every input of up to N bytes, every trap and EVERY decoder behaviour allowed by the contract,
/// decode_loop leaves its loop within 2(4N+4)+1 iterations (every iteration that is not followed by
/// the end consumes input, produces output - at most 3N+4 bytes in total - or is a no-progress
/// OutputFull, which the growth step must make impossible next time) and never panics
/// (no index out of range when building the error context).
fn decode_loop_contract<const N: usize>() {
    let bytes: [u8; N] = kani::any();
    let len: usize = kani::any();
    kani::assume(len <= N);
    let (trap, k) = sym_trap();
    if sym::playback() {
        eprintln!("VERIF-INPUT bytes={:?} trap_choice={}", &bytes[..len], k);
    }
    unsafe {
        MODEL_LEN = 0;
        MODEL_CAP = 0;
        MODEL_BUDGET = 3 * len + 4;
        MODEL_WRITTEN = 0;
    }
    let mut decoder = encoding_rs::UTF_16LE.new_decoder_without_bom_handling();
    let mut output = String::new();
    let r = decode_loop(&bytes[..len], &mut output, &mut decoder, trap);
    kani::cover!(r.is_ok(), "must: decoding completed");
    kani::cover!(r.is_err(), "must: decode error reached");
    std::mem::forget(r);
    std::mem::forget(output);
}

#[kani::proof]
#[kani::unwind(27)]
#[kani::stub(alloc::fmt::format, fmt_stub)]
#[kani::stub(encoding_rs::Decoder::decode_to_string_without_replacement, decode_contract_stub)]
#[kani::stub(std::string::String::reserve, model_reserve)]
#[kani::stub(std::string::String::push, model_push)]
pub fn c18_decode_loop_terminates_2() {
    decode_loop_contract::<2>();
}

#[kani::proof]
#[kani::unwind(43)]
#[kani::stub(alloc::fmt::format, fmt_stub)]
#[kani::stub(encoding_rs::Decoder::decode_to_string_without_replacement, decode_contract_stub)]
#[kani::stub(std::string::String::reserve, model_reserve)]
#[kani::stub(std::string::String::push, model_push)]
pub fn c18_decode_loop_terminates_4() {
    decode_loop_contract::<4>();
}

/// Native confirmation for a non-termination verdict (run by bin/check with `cargo kani playback`):
/// the real decoders on every UTF-16LE/BE text of 1..=6 units over {a, U+4E2D, U+1F600} (BOM-less),
/// each trap, under a watchdog. A hang here reproduces the solver's verdict on the real code.
#[cfg(test)]
#[test]
fn c18_native_hang_probe() {
    use std::sync::mpsc;
    use std::time::Duration;
    let alphabet: [&str; 3] = ["a", "\u{4e2d}", "\u{1F600}"];
    let mut texts: Vec<String> = vec![String::new()];
    let mut all: Vec<String> = Vec::new();
    for _ in 0..5 {
        let mut next = Vec::new();
        for t in &texts {
            for a in alphabet {
                let mut s = t.clone();
                s.push_str(a);
                next.push(s);
            }
        }
        all.extend(next.iter().cloned());
        texts = next;
    }
    for text in all {
        let full = format!("a{text}");
        for be in [false, true] {
            let mut bytes = Vec::new();
            for u in full.encode_utf16() {
                bytes.extend_from_slice(&if be { u.to_be_bytes() } else { u.to_le_bytes() });
            }
            let (tx, rx) = mpsc::channel();
            let b2 = bytes.clone();
            std::thread::spawn(move || {
                let mut dec = YamlDecoder::read(&b2[..]);
                dec.encoding_trap(YAMLDecodingTrap::Ignore);
                let r = dec.decode().is_ok();
                let _ = tx.send(r);
            });
            match rx.recv_timeout(Duration::from_secs(3)) {
                Ok(_) => {}
                Err(_) => {
                    eprintln!("VERIF-INPUT hang decoding utf16{} bytes={:?} text={:?}", if be { "be" } else { "le" }, bytes, full);
                    panic!("C18: decoding does not terminate");
                }
            }
        }
    }
}

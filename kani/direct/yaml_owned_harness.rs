//! Kani harnesses compiled inside the crate as a child module (sees private items).
#![allow(dead_code, unused_imports, clippy::all)]
use super::*;

#[path = "/verif/kani/common/sym.rs"]
pub mod sym;

#[cfg(test)]
mod playback {
    use super::*;
    include!("/verif/.work/playback/yaml_owned.rs");
}

//! A `Hasher` that records the exact byte stream written to it (the sequence of `write*` calls,
//! flattened). Two values whose recorded streams are equal hash equally under EVERY hasher.
pub const TRACE: usize = 32;
pub struct Rec {
    pub bytes: [u8; TRACE],
    pub n: usize,
    pub overflow: bool,
}
impl Rec {
    pub fn new() -> Rec {
        Rec { bytes: [0u8; TRACE], n: 0, overflow: false }
    }
    pub fn same(&self, o: &Rec) -> bool {
        // loop-free (TRACE = 32), so that the unwinding bound of a harness is independent of it
        if self.n != o.n || self.overflow || o.overflow {
            return false;
        }
        let n = self.n;
        true
            && (n <= 0 || self.bytes[0] == o.bytes[0])
            && (n <= 1 || self.bytes[1] == o.bytes[1])
            && (n <= 2 || self.bytes[2] == o.bytes[2])
            && (n <= 3 || self.bytes[3] == o.bytes[3])
            && (n <= 4 || self.bytes[4] == o.bytes[4])
            && (n <= 5 || self.bytes[5] == o.bytes[5])
            && (n <= 6 || self.bytes[6] == o.bytes[6])
            && (n <= 7 || self.bytes[7] == o.bytes[7])
            && (n <= 8 || self.bytes[8] == o.bytes[8])
            && (n <= 9 || self.bytes[9] == o.bytes[9])
            && (n <= 10 || self.bytes[10] == o.bytes[10])
            && (n <= 11 || self.bytes[11] == o.bytes[11])
            && (n <= 12 || self.bytes[12] == o.bytes[12])
            && (n <= 13 || self.bytes[13] == o.bytes[13])
            && (n <= 14 || self.bytes[14] == o.bytes[14])
            && (n <= 15 || self.bytes[15] == o.bytes[15])
            && (n <= 16 || self.bytes[16] == o.bytes[16])
            && (n <= 17 || self.bytes[17] == o.bytes[17])
            && (n <= 18 || self.bytes[18] == o.bytes[18])
            && (n <= 19 || self.bytes[19] == o.bytes[19])
            && (n <= 20 || self.bytes[20] == o.bytes[20])
            && (n <= 21 || self.bytes[21] == o.bytes[21])
            && (n <= 22 || self.bytes[22] == o.bytes[22])
            && (n <= 23 || self.bytes[23] == o.bytes[23])
            && (n <= 24 || self.bytes[24] == o.bytes[24])
            && (n <= 25 || self.bytes[25] == o.bytes[25])
            && (n <= 26 || self.bytes[26] == o.bytes[26])
            && (n <= 27 || self.bytes[27] == o.bytes[27])
            && (n <= 28 || self.bytes[28] == o.bytes[28])
            && (n <= 29 || self.bytes[29] == o.bytes[29])
            && (n <= 30 || self.bytes[30] == o.bytes[30])
            && (n <= 31 || self.bytes[31] == o.bytes[31])
    }
}
impl std::hash::Hasher for Rec {
    fn finish(&self) -> u64 {
        0
    }
    fn write(&mut self, bytes: &[u8]) {
        let mut i = 0;
        while i < bytes.len() {
            if self.n < TRACE {
                self.bytes[self.n] = bytes[i];
                self.n += 1;
            } else {
                self.overflow = true;
            }
            i += 1;
        }
    }
}

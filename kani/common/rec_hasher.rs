//! A `Hasher` that records the exact byte stream written to it (the sequence of `write*` calls,
//! flattened). Two values whose recorded streams are equal hash equally under EVERY hasher.
pub const TRACE: usize = 48;
pub struct Rec {
    pub bytes: [u8; TRACE],
    pub n: usize,
    pub overflow: bool,
}
impl Rec {
    pub fn new() -> Rec {
        Rec { bytes: [0u8; TRACE], n: 0, overflow: false }
    }
    pub fn same(&self, o: &Rec) -> bool {
        if self.n != o.n || self.overflow || o.overflow {
            return false;
        }
        let mut i = 0;
        while i < TRACE {
            if i < self.n && self.bytes[i] != o.bytes[i] {
                return false;
            }
            i += 1;
        }
        true
    }
}
impl std::hash::Hasher for Rec {
    fn finish(&self) -> u64 {
        0
    }
    fn write(&mut self, bytes: &[u8]) {
        let mut i = 0;
        while i < bytes.len() {
            if self.n < TRACE {
                self.bytes[self.n] = bytes[i];
                self.n += 1;
            } else {
                self.overflow = true;
            }
            i += 1;
        }
    }
}

//! Symbolic-input helpers shared by the harnesses. Under concrete playback (native run of a
//! counterexample) `note*` prints the concrete input so that the driver can store it in the replay
//! case; under symbolic execution `PLAYBACK` is constant false and the branch is pruned.
use std::sync::atomic::{AtomicBool, Ordering};

pub static PLAYBACK: AtomicBool = AtomicBool::new(false);

pub fn playback() -> bool {
    PLAYBACK.load(Ordering::Relaxed)
}
pub fn set_playback() {
    PLAYBACK.store(true, Ordering::Relaxed);
}

pub fn note_bytes(label: &str, b: &[u8]) {
    if playback() {
        eprintln!("VERIF-INPUT {}={:?}", label, String::from_utf8_lossy(b));
        eprintln!("VERIF-BYTES {}={:?}", label, b);
    }
}
pub fn note_str(label: &str, s: &str) {
    if playback() {
        eprintln!("VERIF-NOTE {}={}", label, s);
    }
}

/// `N` symbolic bytes, each drawn from `alphabet` (index choice), and a symbolic length <= N.
pub fn bytes_over<const N: usize>(alphabet: &[u8]) -> ([u8; N], usize) {
    let mut out = [0u8; N];
    let len: usize = kani::any();
    kani::assume(len <= N);
    let mut i = 0;
    while i < N {
        let k: u8 = kani::any();
        kani::assume((k as usize) < alphabet.len());
        out[i] = alphabet[k as usize];
        i += 1;
    }
    (out, len)
}

/// `N` symbolic ASCII bytes (1..=127) and a symbolic length <= N.
pub fn ascii<const N: usize>() -> ([u8; N], usize) {
    let bytes: [u8; N] = kani::any();
    let len: usize = kani::any();
    kani::assume(len <= N);
    let mut i = 0;
    while i < N {
        kani::assume(bytes[i] >= 1 && bytes[i] < 0x80);
        i += 1;
    }
    (bytes, len)
}

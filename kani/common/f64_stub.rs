//! Contract stub for `<f64 as FromStr>::from_str`: accepts exactly the grammar documented by std;
//! the value is nondeterministic within the class (any non-NaN f64 for numbers).
/// Contract stub for `<f64 as FromStr>::from_str` (same as in the C08 harnesses): accepts exactly
/// the std-documented grammar.
pub fn f64_class(b: &[u8]) -> u8 {
    let n = b.len();
    let mut i = 0;
    let mut neg = false;
    if i < n && (b[i] == b'+' || b[i] == b'-') {
        neg = b[i] == b'-';
        i += 1;
    }
    let t = &b[i..];
    if t.eq_ignore_ascii_case(b"inf") || t.eq_ignore_ascii_case(b"infinity") {
        return if neg { 3 } else { 2 };
    }
    if t.eq_ignore_ascii_case(b"nan") {
        return 4;
    }
    let mut digits = 0;
    while i < n && b[i].is_ascii_digit() {
        i += 1;
        digits += 1;
    }
    if i < n && b[i] == b'.' {
        i += 1;
        while i < n && b[i].is_ascii_digit() {
            i += 1;
            digits += 1;
        }
    }
    if digits == 0 {
        return 0;
    }
    if i < n && (b[i] == b'e' || b[i] == b'E') {
        i += 1;
        if i < n && (b[i] == b'+' || b[i] == b'-') {
            i += 1;
        }
        let mut ed = 0;
        while i < n && b[i].is_ascii_digit() {
            i += 1;
            ed += 1;
        }
        if ed == 0 {
            return 0;
        }
    }
    if i == n {
        1
    } else {
        0
    }
}
pub fn f64_from_str_stub(s: &str) -> Result<f64, std::num::ParseFloatError> {
    match f64_class(s.as_bytes()) {
        1 => {
            let v: f64 = kani::any();
            kani::assume(!v.is_nan());
            Ok(v)
        }
        2 => Ok(f64::INFINITY),
        3 => Ok(f64::NEG_INFINITY),
        4 => Ok(f64::NAN),
        _ => Err("".parse::<f32>().unwrap_err()),
    }
}


//! Reference recogniser for the YAML 1.2 core schema (spec 10.3.2), written from the regular
//! expressions of the tag-resolution table. Independent of std's number parsers: explicit DFAs over
//! bytes and a wide (i128) accumulator for integer values.

#[derive(Clone, Copy, PartialEq, Eq, Debug)]
pub enum FloatClass {
    /// `[-+]? ( \. [0-9]+ | [0-9]+ ( \. [0-9]* )? ) ( [eE] [-+]? [0-9]+ )?`
    Number,
    PosInf,
    NegInf,
    Nan,
}

fn is_digit(b: u8) -> bool {
    b >= b'0' && b <= b'9'
}
fn is_hex(b: u8) -> bool {
    is_digit(b) || (b >= b'a' && b <= b'f') || (b >= b'A' && b <= b'F')
}
fn hex_val(b: u8) -> i128 {
    if is_digit(b) {
        (b - b'0') as i128
    } else if b >= b'a' {
        (b - b'a' + 10) as i128
    } else {
        (b - b'A' + 10) as i128
    }
}

fn eq(t: &[u8], lit: &[u8]) -> bool {
    if t.len() != lit.len() {
        return false;
    }
    let mut i = 0;
    while i < lit.len() {
        if t[i] != lit[i] {
            return false;
        }
        i += 1;
    }
    true
}

/// `null | Null | NULL | ~`
pub fn is_null(t: &[u8]) -> bool {
    eq(t, b"null") || eq(t, b"Null") || eq(t, b"NULL") || eq(t, b"~")
}
/// The spellings the property statement requires to be recognised (`null`, `~`).
pub fn is_null_required(t: &[u8]) -> bool {
    eq(t, b"null") || eq(t, b"~")
}

/// `true | True | TRUE | false | False | FALSE`
pub fn bool_value(t: &[u8]) -> Option<bool> {
    if eq(t, b"true") || eq(t, b"True") || eq(t, b"TRUE") {
        Some(true)
    } else if eq(t, b"false") || eq(t, b"False") || eq(t, b"FALSE") {
        Some(false)
    } else {
        None
    }
}
pub fn bool_required(t: &[u8]) -> Option<bool> {
    if eq(t, b"true") {
        Some(true)
    } else if eq(t, b"false") {
        Some(false)
    } else {
        None
    }
}

/// Value of a core-schema integer literal, `None` if `t` is not one.
/// `[-+]? [0-9]+ | 0o [0-7]+ | 0x [0-9a-fA-F]+`. Saturates the magnitude at 2^100 (callers only
/// compare against the i64 range).
pub fn int_value(t: &[u8]) -> Option<i128> {
    const CAP: i128 = 1 << 100;
    let n = t.len();
    if n >= 3 && t[0] == b'0' && (t[1] == b'x' || t[1] == b'o') {
        let hex = t[1] == b'x';
        let mut acc: i128 = 0;
        let mut i = 2;
        while i < n {
            let b = t[i];
            if hex {
                if !is_hex(b) {
                    return None;
                }
                if acc < CAP {
                    acc = acc * 16 + hex_val(b);
                }
            } else {
                if !(b >= b'0' && b <= b'7') {
                    return None;
                }
                if acc < CAP {
                    acc = acc * 8 + (b - b'0') as i128;
                }
            }
            i += 1;
        }
        return Some(acc);
    }
    let mut i = 0;
    let mut neg = false;
    if i < n && (t[i] == b'+' || t[i] == b'-') {
        neg = t[i] == b'-';
        i += 1;
    }
    if i >= n {
        return None;
    }
    let mut acc: i128 = 0;
    while i < n {
        let b = t[i];
        if !is_digit(b) {
            return None;
        }
        if acc < CAP {
            acc = acc * 10 + (b - b'0') as i128;
        }
        i += 1;
    }
    Some(if neg { -acc } else { acc })
}

pub fn fits_i64(v: i128) -> bool {
    v >= i64::MIN as i128 && v <= i64::MAX as i128
}

/// Core-schema float literal class, `None` if `t` is not one.
pub fn float_class(t: &[u8]) -> Option<FloatClass> {
    let n = t.len();
    if eq(t, b".nan") || eq(t, b".NaN") || eq(t, b".NAN") {
        return Some(FloatClass::Nan);
    }
    let mut i = 0;
    let mut neg = false;
    if i < n && (t[i] == b'+' || t[i] == b'-') {
        neg = t[i] == b'-';
        i += 1;
    }
    let rest = &t[i..];
    if eq(rest, b".inf") || eq(rest, b".Inf") || eq(rest, b".INF") {
        return Some(if neg { FloatClass::NegInf } else { FloatClass::PosInf });
    }
    // mantissa
    let mut int_digits = 0;
    while i < n && is_digit(t[i]) {
        i += 1;
        int_digits += 1;
    }
    if i < n && t[i] == b'.' {
        i += 1;
        let mut frac = 0;
        while i < n && is_digit(t[i]) {
            i += 1;
            frac += 1;
        }
        if int_digits == 0 && frac == 0 {
            return None;
        }
    } else if int_digits == 0 {
        return None;
    }
    if i < n && (t[i] == b'e' || t[i] == b'E') {
        i += 1;
        if i < n && (t[i] == b'+' || t[i] == b'-') {
            i += 1;
        }
        let mut ed = 0;
        while i < n && is_digit(t[i]) {
            i += 1;
            ed += 1;
        }
        if ed == 0 {
            return None;
        }
    }
    if i == n {
        Some(FloatClass::Number)
    } else {
        None
    }
}

/// Language accepted by Rust's `<f64 as FromStr>::from_str` (std docs, "Grammar"):
/// `Sign? ( 'inf' | 'infinity' | 'nan' | Number )`, case-insensitive words,
/// `Number ::= ( Digit+ | Digit+ '.' Digit* | Digit* '.' Digit+ ) Exp?`, `Exp ::= 'e' Sign? Digit+`.
/// Returns the class of the accepted text: 0 = rejected, 1 = finite/overflowing number,
/// 2 = +inf, 3 = -inf, 4 = nan.
pub fn rust_f64_class(b: &[u8]) -> u8 {
    let n = b.len();
    let mut i = 0;
    let mut neg = false;
    if i < n && (b[i] == b'+' || b[i] == b'-') {
        neg = b[i] == b'-';
        i += 1;
    }
    let t = &b[i..];
    if t.eq_ignore_ascii_case(b"inf") || t.eq_ignore_ascii_case(b"infinity") {
        return if neg { 3 } else { 2 };
    }
    if t.eq_ignore_ascii_case(b"nan") {
        return 4;
    }
    let mut digits = 0;
    while i < n && is_digit(b[i]) {
        i += 1;
        digits += 1;
    }
    if i < n && b[i] == b'.' {
        i += 1;
        while i < n && is_digit(b[i]) {
            i += 1;
            digits += 1;
        }
    }
    if digits == 0 {
        return 0;
    }
    if i < n && (b[i] == b'e' || b[i] == b'E') {
        i += 1;
        if i < n && (b[i] == b'+' || b[i] == b'-') {
            i += 1;
        }
        let mut ed = 0;
        while i < n && is_digit(b[i]) {
            i += 1;
            ed += 1;
        }
        if ed == 0 {
            return 0;
        }
    }
    if i == n {
        1
    } else {
        0
    }
}

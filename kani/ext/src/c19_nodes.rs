//! C19 — node types and loading modes hold the same data (the parts that do not need a hash map):
//! owned and borrowed scalar resolution agree for every style/tag, resolving a tree leaves resolved
//! nodes untouched and resolves representations like the eager loader, marked nodes compare and
//! hash by data only.
use crate::core_schema::*;
use crate::sym;
use saphyr::{MarkedYaml, Scalar, ScalarOwned, ScalarStyle, Tag, Yaml, YamlData, YamlOwned};
use saphyr_parser::{Marker, Span};
use std::borrow::Cow;
use std::hash::{Hash, Hasher};

#[path = "/verif/kani/common/rec_hasher.rs"]
pub mod rec_hasher;
use rec_hasher::Rec;

use crate::c08_resolver::f64_from_str_stub;

const ALPHA: [u8; 10] = [b'1', b'0', b'x', b'.', b'-', b'~', b't', b'n', b'a', b'e'];

fn sym_text<const N: usize>(buf: &mut [u8; N]) -> usize {
    let n: usize = kani::any();
    kani::assume(n <= N);
    let mut i = 0;
    while i < N {
        let k: u8 = kani::any();
        kani::assume((k as usize) < ALPHA.len());
        buf[i] = ALPHA[k as usize];
        i += 1;
    }
    n
}

fn sym_style() -> ScalarStyle {
    let k: u8 = kani::any();
    kani::assume(k < 5);
    match k {
        0 => ScalarStyle::Plain,
        1 => ScalarStyle::SingleQuoted,
        2 => ScalarStyle::DoubleQuoted,
        3 => ScalarStyle::Literal,
        _ => ScalarStyle::Folded,
    }
}

fn mk_tag(k: u8) -> Option<Tag> {
    match k {
        0 => None,
        1 => Some(Tag { handle: "tag:yaml.org,2002:".into(), suffix: "int".into() }),
        _ => Some(Tag { handle: "tag:yaml.org,2002:".into(), suffix: "str".into() }),
    }
}

fn same_scalar(a: &Scalar, b: &ScalarOwned) -> bool {
    match (a, b) {
        (Scalar::Null, ScalarOwned::Null) => true,
        (Scalar::Boolean(x), ScalarOwned::Boolean(y)) => x == y,
        (Scalar::Integer(x), ScalarOwned::Integer(y)) => x == y,
        // the stubbed float value is drawn per call; compare the class only
        (Scalar::FloatingPoint(_), ScalarOwned::FloatingPoint(_)) => true,
        (Scalar::String(x), ScalarOwned::String(y)) => x.len() == y.len() && x.as_bytes() == y.as_bytes(),
        _ => false,
    }
}

/// Owned and borrowed scalars resolve identically for every style and tag.
fn owned_and_borrowed_resolve_identically(tk: u8) {
    let mut buf = [0u8; 2];
    let n = sym_text(&mut buf);
    let style = sym_style();
    sym::note_bytes("text", &buf[..n]);
    if sym::playback() {
        eprintln!("VERIF-NOTE style={:?} tag_choice={}", style, tk);
    }
    let s = unsafe { std::str::from_utf8_unchecked(&buf[..n]) };
    let tag = mk_tag(tk);
    let a = Scalar::parse_from_cow_and_metadata(Cow::Borrowed(s), style, tag.as_ref());
    let b = ScalarOwned::parse_from_cow_and_metadata(Cow::Borrowed(s), style, tag.as_ref());
    let same = match (&a, &b) {
        (None, None) => true,
        (Some(x), Some(y)) => same_scalar(x, y),
        _ => false,
    };
    assert!(same, "C19: owned and borrowed scalar resolution differ");
    kani::cover!(style != ScalarStyle::Plain && matches!(a, Some(Scalar::String(_))), "must: quoted scalar reached");
    kani::cover!(matches!(a, Some(Scalar::Integer(_))), "integer reached");
    std::mem::forget((a, b, tag));
}
// the tag choice is a harness parameter (keeps each instance, and the counterexample extraction of a
// failing one, small)
#[kani::proof]
#[kani::unwind(20)]
#[kani::stub(<f64 as std::str::FromStr>::from_str, f64_from_str_stub)]
pub fn c19_owned_and_borrowed_untagged() {
    owned_and_borrowed_resolve_identically(0);
}
#[kani::proof]
#[kani::unwind(20)]
#[kani::stub(<f64 as std::str::FromStr>::from_str, f64_from_str_stub)]
pub fn c19_owned_and_borrowed_int_tag() {
    owned_and_borrowed_resolve_identically(1);
}
#[kani::proof]
#[kani::unwind(20)]
#[kani::stub(<f64 as std::str::FromStr>::from_str, f64_from_str_stub)]
pub fn c19_owned_and_borrowed_str_tag() {
    owned_and_borrowed_resolve_identically(2);
}

/// Resolving leaves already-resolved nodes untouched; a representation resolves to what the eager
/// loader produces (value_from_cow_and_metadata); BadValue on tag mismatch.
fn parse_representation_yaml(v: u8, recursive: bool) {
    let mut buf = [0u8; 2];
    let n = sym_text(&mut buf);
    let s = unsafe { std::str::from_utf8_unchecked(&buf[..n]) };
    let style = sym_style();
    let x: i64 = kani::any();
    if sym::playback() {
        eprintln!("VERIF-INPUT variant={} text={:?} style={:?} int={}", v, s, style, x);
    }
    let mut node = match v {
        0 => Yaml::Value(Scalar::Integer(x)),
        1 => Yaml::Value(Scalar::String(Cow::Borrowed(s))),
        2 => Yaml::Alias(x as usize),
        3 => Yaml::BadValue,
        4 => Yaml::Value(Scalar::Null),
        _ => Yaml::Representation(Cow::Borrowed(s), style, None),
    };
    let ok = if recursive { node.parse_representation_recursive() } else { node.parse_representation() };
    match v {
        0 => assert!(ok && matches!(node, Yaml::Value(Scalar::Integer(y)) if y == x), "C19: resolving changed an already resolved integer"),
        1 => assert!(ok && matches!(&node, Yaml::Value(Scalar::String(t)) if t.as_bytes() == s.as_bytes()), "C19: resolving changed an already resolved string"),
        2 => assert!(ok && matches!(node, Yaml::Alias(y) if y == x as usize), "C19: resolving changed an alias node"),
        3 => assert!(matches!(node, Yaml::BadValue), "C19: BadValue did not stay BadValue"),
        4 => assert!(ok && matches!(node, Yaml::Value(Scalar::Null)), "C19: resolving changed an already resolved null"),
        _ => {
            assert!(ok, "C19: untagged representation failed to resolve");
            match &node {
                Yaml::Value(sc) => {
                    if style != ScalarStyle::Plain {
                        assert!(matches!(sc, Scalar::String(t) if t.as_bytes() == s.as_bytes()), "C19: quoted representation did not resolve to its text");
                    } else {
                        // agrees with the core-schema reading of the text
                        let t = &buf[..n];
                        match sc {
                            Scalar::Integer(i) => assert!(int_value(t) == Some(*i as i128), "C19: deferred integer differs"),
                            Scalar::Null => assert!(is_null(t), "C19: deferred null differs"),
                            Scalar::Boolean(b) => assert!(bool_value(t) == Some(*b), "C19: deferred bool differs"),
                            Scalar::FloatingPoint(_) => assert!(float_class(t).is_some(), "C19: deferred float differs"),
                            Scalar::String(x) => assert!(x.as_bytes() == t && int_value(t).is_none() && !is_null_required(t), "C19: deferred string differs"),
                        }
                    }
                }
                _ => assert!(false, "C19: representation did not become a value"),
            }
        }
    }
    kani::cover!(true, "must: compared");
    std::mem::forget(node);
}
macro_rules! pr_harness {
    ($name:ident, $v:expr, $rec:expr) => {
        #[kani::proof]
        #[kani::unwind(12)]
        #[kani::stub(<f64 as std::str::FromStr>::from_str, f64_from_str_stub)]
        pub fn $name() {
            parse_representation_yaml($v, $rec);
        }
    };
}
// the node VARIANT is a harness parameter (a symbolic variant makes the derived recursive drop /
// clone of the tree type explode); payloads, text and style are symbolic
pr_harness!(c19_parse_representation_integer, 0, false);
pr_harness!(c19_parse_representation_string, 1, true);
pr_harness!(c19_parse_representation_alias, 2, false);
pr_harness!(c19_parse_representation_badvalue, 3, true);
pr_harness!(c19_parse_representation_null_recursive, 4, true);
pr_harness!(c19_parse_representation_repr, 5, false);
pr_harness!(c19_parse_representation_repr_recursive, 5, true);

fn sym_span() -> Span {
    let a: usize = kani::any();
    let b: usize = kani::any();
    kani::assume(a < 1000 && b < 1000);
    Span::new(Marker::new(a, 1, a), Marker::new(b, 2, b))
}

/// Marked nodes compare and hash by their data only: two nodes with equal data and arbitrary spans
/// are equal and feed a hasher the same bytes; nodes with different data are unequal.
fn marked_eq_hash_ignore_span(v: u8) {
    let x: i64 = kani::any();
    let y: i64 = kani::any();
    let mk = |val: i64, span: Span| -> MarkedYaml<'static> {
        let data = match v {
            0 => YamlData::Value(Scalar::Integer(val)),
            1 => YamlData::Value(Scalar::Boolean(val & 1 == 1)),
            2 => YamlData::Alias(val as usize),
            _ => YamlData::Value(Scalar::String(Cow::Borrowed(if val & 1 == 1 { "a" } else { "b" }))),
        };
        MarkedYaml { span, data }
    };
    let n1 = mk(x, sym_span());
    let n2 = mk(x, sym_span());
    let n3 = mk(y, sym_span());
    assert!(n1 == n2, "C19: marked nodes with equal data but different spans compare unequal");
    let mut h1 = Rec::new();
    let mut h2 = Rec::new();
    n1.hash(&mut h1);
    n2.hash(&mut h2);
    assert!(h1.same(&h2), "C19: marked nodes with equal data hash differently (span leaks into the hash)");
    let data_equal = match v {
        0 | 2 => x == y,
        _ => (x & 1) == (y & 1),
    };
    assert!((n1 == n3) == data_equal, "C19: marked node equality is not equality of the data");
    kani::cover!(n1 == n3, "must: equal data reached");
    kani::cover!(n1 != n3, "must: different data reached");
    std::mem::forget((n1, n2, n3));
}
macro_rules! marked_harness {
    ($name:ident, $v:expr) => {
        #[kani::proof]
        #[kani::unwind(12)]
        pub fn $name() {
            marked_eq_hash_ignore_span($v);
        }
    };
}
marked_harness!(c19_marked_eq_hash_integer, 0);
marked_harness!(c19_marked_eq_hash_boolean, 1);
marked_harness!(c19_marked_eq_hash_alias, 2);
marked_harness!(c19_marked_eq_hash_string, 3);

//! C08 — scalar typing follows the core schema. Real `Scalar::parse_from_cow(_and_metadata)`,
//! `ScalarOwned::*`; `<f64 as FromStr>::from_str` replaced by a contract stub (grammar from the std
//! docs, value nondeterministic within the class).
use crate::core_schema::*;
use crate::sym;
use saphyr::{Scalar, ScalarOwned, ScalarStyle, Tag};
use std::borrow::Cow;

/// Contract stub for `<f64 as FromStr>::from_str`: accepts exactly the documented grammar; for a
/// number the value is any non-NaN f64; `inf`/`nan` words give the corresponding special value.
pub fn f64_from_str_stub(s: &str) -> Result<f64, std::num::ParseFloatError> {
    match rust_f64_class(s.as_bytes()) {
        1 => {
            let v: f64 = kani::any();
            kani::assume(!v.is_nan());
            Ok(v)
        }
        2 => Ok(f64::INFINITY),
        3 => Ok(f64::NEG_INFINITY),
        4 => Ok(f64::NAN),
        _ => {
            // produce a genuine ParseFloatError through the (stub-free) integer path is not
            // possible; the error value is opaque to callers (`.ok()`), so build one by transmute-
            // free means: parse an invalid literal with the stubbed function would recurse, hence
            // use the fact that ParseFloatError is produced by `"".parse::<f32>()`.
            Err("".parse::<f32>().unwrap_err())
        }
    }
}

fn literal_alphabet(b: u8) -> bool {
    (b >= b'0' && b <= b'9')
        || matches!(
            b,
            b'+' | b'-' | b'.' | b'e' | b'E' | b'x' | b'o' | b'_' | b'~'
                | b'a'..=b'd' | b'f' | b'A'..=b'D' | b'F'
                | b'n' | b'u' | b'l' | b't' | b'r' | b's' | b'i' | b'y'
                | b'N' | b'U' | b'L' | b'T' | b'R' | b'S' | b'I' | b'Y'
        )
}

fn sym_literal<const N: usize>() -> ([u8; N], usize) {
    let bytes: [u8; N] = kani::any();
    let len: usize = kani::any();
    kani::assume(len <= N);
    let mut i = 0;
    while i < N {
        kani::assume(literal_alphabet(bytes[i]));
        i += 1;
    }
    (bytes, len)
}

fn bytes_eq(a: &[u8], b: &[u8]) -> bool {
    if a.len() != b.len() {
        return false;
    }
    let mut i = 0;
    while i < a.len() {
        if a[i] != b[i] {
            return false;
        }
        i += 1;
    }
    true
}

/// The oracle for an untagged plain scalar.
fn check_untagged(t: &[u8], r: &Scalar) {
    match r {
        Scalar::Null => {
            kani::cover!(true, "null reached");
            assert!(is_null(t), "C08: typed Null but text is not a core-schema null");
        }
        Scalar::Boolean(b) => {
            kani::cover!(true, "bool reached");
            assert!(bool_value(t) == Some(*b), "C08: typed Boolean but text is not that core-schema boolean");
        }
        Scalar::Integer(i) => {
            kani::cover!(true, "int reached");
            let v = int_value(t);
            assert!(v.is_some(), "C08: typed Integer but text is not a core-schema integer");
            assert!(v == Some(*i as i128), "C08: Integer value differs from the denoted value");
        }
        Scalar::FloatingPoint(f) => {
            kani::cover!(true, "float reached");
            let c = float_class(t);
            assert!(c.is_some(), "C08: typed Float but text is not a core-schema float");
            match c {
                Some(FloatClass::Number) => { assert!(!f.0.is_nan(), "C08: number literal gave NaN"); }
                Some(FloatClass::PosInf) => { assert!(f.0 == f64::INFINITY, "C08: .inf value"); }
                Some(FloatClass::NegInf) => { assert!(f.0 == f64::NEG_INFINITY, "C08: -.inf value"); }
                Some(FloatClass::Nan) => { assert!(f.0.is_nan(), "C08: .nan value"); }
                None => {}
            }
        }
        Scalar::String(s) => {
            kani::cover!(true, "string reached");
            assert!(bytes_eq(s.as_bytes(), t), "C08: string content differs from the scalar text");
            assert!(!is_null_required(t), "C08: null/~ not recognised");
            assert!(bool_required(t).is_none(), "C08: true/false not recognised");
            let v = int_value(t);
            assert!(!(v.is_some() && fits_i64(v.unwrap())), "C08: 64-bit integer literal not recognised");
            assert!(float_class(t).is_none(), "C08: float literal not recognised");
        }
    }
}

fn untagged<const N: usize>() {
    let (bytes, len) = sym_literal::<N>();
    let t = &bytes[..len];
    sym::note_bytes("text", t);
    let s = unsafe { std::str::from_utf8_unchecked(t) };
    let r = Scalar::parse_from_cow(Cow::Borrowed(s));
    check_untagged(t, &r);
    kani::cover!(matches!(r, Scalar::Integer(_)), "must: integer result reached");
    kani::cover!(matches!(r, Scalar::FloatingPoint(_)), "must: float result reached");
    kani::cover!(matches!(r, Scalar::String(_)), "must: string result reached");
    kani::cover!(matches!(r, Scalar::Null), "must: null result reached");
    std::mem::forget(r);
}

#[kani::proof]
#[kani::unwind(6)]
#[kani::stub(<f64 as std::str::FromStr>::from_str, f64_from_str_stub)]
pub fn c08_untagged_3() {
    untagged::<3>();
}

#[kani::proof]
#[kani::unwind(7)]
#[kani::stub(<f64 as std::str::FromStr>::from_str, f64_from_str_stub)]
pub fn c08_untagged_4() {
    untagged::<4>();
}

#[kani::proof]
#[kani::unwind(8)]
#[kani::stub(<f64 as std::str::FromStr>::from_str, f64_from_str_stub)]
pub fn c08_untagged_5() {
    untagged::<5>();
}

#[kani::proof]
#[kani::unwind(9)]
#[kani::stub(<f64 as std::str::FromStr>::from_str, f64_from_str_stub)]
pub fn c08_untagged_6() {
    untagged::<6>();
}

/// 64-bit boundaries: `prefix` + one symbolic lead char + `mid_len` digits each chosen from
/// {`lo`, `hi`} (one symbolic choice for all of them, plus a symbolic choice for the last of them)
/// + 1..=2 symbolic trailing chars of the literal alphabet. Brings the accumulated value next to the
/// i64/u64 limits from both sides.
fn boundary(prefix: &[u8], lead_fixed: Option<u8>, mid_len: usize, lo: u8, hi: u8) {
    let mut buf = [0u8; 32];
    let mut n = 0;
    let mut i = 0;
    while i < prefix.len() {
        buf[n] = prefix[i];
        n += 1;
        i += 1;
    }
    match lead_fixed {
        Some(c) => {
            buf[n] = c;
            n += 1;
        }
        None => {
            let (lead, _) = sym_literal::<1>();
            buf[n] = lead[0];
            n += 1;
        }
    }
    let all_hi: bool = kani::any();
    let last_hi: bool = kani::any();
    let mut j = 0;
    while j < mid_len {
        let h = if j + 1 == mid_len { last_hi } else { all_hi };
        buf[n] = if h { hi } else { lo };
        n += 1;
        j += 1;
    }
    let (tail, tl) = sym_literal::<2>();
    kani::assume(tl >= 1);
    buf[n] = tail[0];
    buf[n + 1] = tail[1];
    let t = &buf[..n + tl];
    sym::note_bytes("text", t);
    let s = unsafe { std::str::from_utf8_unchecked(t) };
    let r = Scalar::parse_from_cow(Cow::Borrowed(s));
    check_untagged(t, &r);
    kani::cover!(matches!(r, Scalar::Integer(_)), "must: boundary integer reached");
    kani::cover!(!matches!(r, Scalar::Integer(_)), "must: boundary non-integer reached");
    std::mem::forget(r);
}

macro_rules! boundary_harness {
    ($name:ident, $prefix:expr, $lead:expr, $mid:expr, $lo:expr, $hi:expr) => {
        #[kani::proof]
        #[kani::unwind(34)]
        #[kani::stub(<f64 as std::str::FromStr>::from_str, f64_from_str_stub)]
        pub fn $name() {
            boundary($prefix, $lead, $mid, $lo, $hi);
        }
    };
}
// i64::MAX = 9223372036854775807 (19 digits)
boundary_harness!(c08_boundary_dec_pos, b"92233720368547758", Some(b'0'), 0, b'0', b'0');
boundary_harness!(c08_boundary_dec_plus, b"+92233720368547758", Some(b'0'), 0, b'0', b'0');
boundary_harness!(c08_boundary_dec_neg, b"-92233720368547758", Some(b'0'), 0, b'0', b'0');
// 0x7fff_ffff_ffff_ffff / 0x8000_0000_0000_0000 / 0xffff_ffff_ffff_ffff: lead digit symbolic
boundary_harness!(c08_boundary_hex, b"0x", None, 14, b'0', b'f');
// 0o777777777777777777777 (21 digits) = i64::MAX, 0o1000000000000000000000 (22 digits) = 2^63
boundary_harness!(c08_boundary_oct, b"0o", None, 19, b'0', b'7');

fn sym_style() -> ScalarStyle {
    let k: u8 = kani::any();
    kani::assume(k < 5);
    match k {
        0 => ScalarStyle::Plain,
        1 => ScalarStyle::SingleQuoted,
        2 => ScalarStyle::DoubleQuoted,
        3 => ScalarStyle::Literal,
        _ => ScalarStyle::Folded,
    }
}

const CORE: &str = "tag:yaml.org,2002:";

/// Tag choices: 0 none, 1 !!int, 2 !!float, 3 !!bool, 4 !!null, 5 !!str, 6 core handle with an
/// unknown suffix, 7 foreign handle whose suffix is `int`.
fn mk_tag(k: u8) -> Option<Tag> {
    let (h, s) = match k {
        0 => return None,
        1 => (CORE, "int"),
        2 => (CORE, "float"),
        3 => (CORE, "bool"),
        4 => (CORE, "null"),
        5 => (CORE, "str"),
        6 => (CORE, "set"),
        _ => ("!", "int"),
    };
    Some(Tag { handle: h.into(), suffix: s.into() })
}

fn tagged<const N: usize>(tag_choice: u8) {
    let (bytes, len) = sym_literal::<N>();
    let t = &bytes[..len];
    let style = sym_style();
    sym::note_bytes("text", t);
    if sym::playback() {
        eprintln!("VERIF-NOTE style={:?} tag_choice={}", style, tag_choice);
    }
    let s = unsafe { std::str::from_utf8_unchecked(t) };
    let tag = mk_tag(tag_choice);
    let r = Scalar::parse_from_cow_and_metadata(Cow::Borrowed(s), style, tag.as_ref());
    if style != ScalarStyle::Plain {
        kani::cover!(true, "must: non-plain reached");
        match &r {
            Some(Scalar::String(x)) => { assert!(bytes_eq(x.as_bytes(), t), "C08: quoted/block scalar text changed"); }
            _ => { assert!(false, "C08: quoted or block scalar did not load as a string"); }
        }
    } else {
        match tag_choice {
            0 => match &r {
                Some(x) => check_untagged(t, x),
                None => { assert!(false, "C08: untagged plain scalar gave no value"); }
            },
            1 => match &r {
                None => {
                    // decimal integers within 64 bits are always accepted under !!int
                    let dec = t.len() >= 1 && !(t.len() >= 2 && t[0] == b'0' && (t[1] == b'x' || t[1] == b'o'));
                    let v = int_value(t);
                    assert!(!(dec && v.is_some() && fits_i64(v.unwrap())), "C08: decimal integer rejected under !!int");
                }
                Some(Scalar::Integer(i)) => {
                    kani::cover!(true, "tagged int reached");
                    assert!(int_value(t) == Some(*i as i128), "C08: !!int value disagrees with the untagged reading");
                }
                Some(_) => { assert!(false, "C08: !!int produced another type"); }
            },
            2 => match &r {
                None => { assert!(float_class(t) != Some(FloatClass::Number), "C08: decimal number rejected under !!float"); }
                Some(Scalar::FloatingPoint(f)) => {
                    kani::cover!(true, "tagged float reached");
                    let c = float_class(t);
                    assert!(c.is_some(), "C08: !!float accepted a text that is not a core-schema number");
                    match c {
                        Some(FloatClass::PosInf) => { assert!(f.0 == f64::INFINITY); }
                        Some(FloatClass::NegInf) => { assert!(f.0 == f64::NEG_INFINITY); }
                        Some(FloatClass::Nan) => { assert!(f.0.is_nan()); }
                        _ => { assert!(!f.0.is_nan()); }
                    }
                }
                Some(_) => { assert!(false, "C08: !!float produced another type"); }
            },
            3 => match &r {
                None => { assert!(bool_required(t).is_none(), "C08: true/false rejected under !!bool"); }
                Some(Scalar::Boolean(b)) => {
                    kani::cover!(true, "tagged bool reached");
                    assert!(bool_value(t) == Some(*b), "C08: !!bool value disagrees with the text");
                }
                Some(_) => { assert!(false, "C08: !!bool produced another type"); }
            },
            4 => match &r {
                None => { assert!(!is_null_required(t), "C08: null/~ rejected under !!null"); }
                Some(Scalar::Null) => {
                    kani::cover!(true, "tagged null reached");
                    assert!(is_null(t), "C08: !!null accepted a non-null text");
                }
                Some(_) => { assert!(false, "C08: !!null produced another type"); }
            },
            _ => match &r {
                Some(Scalar::String(x)) => { assert!(bytes_eq(x.as_bytes(), t), "C08: !!str/foreign tag changed the text"); }
                _ => { assert!(false, "C08: !!str or foreign tag did not leave a string"); }
            },
        }
    }
    kani::cover!(style == ScalarStyle::Plain && r.is_some(), "must: plain with a value reached");
    std::mem::forget(r);
    std::mem::forget(tag);
}

macro_rules! tagged_harness {
    ($name:ident, $n:expr, $unw:expr, $k:expr) => {
        #[kani::proof]
        #[kani::unwind($unw)]
        #[kani::stub(<f64 as std::str::FromStr>::from_str, f64_from_str_stub)]
        pub fn $name() {
            tagged::<$n>($k);
        }
    };
}
tagged_harness!(c08_tagged3_none, 3, 20, 0);
tagged_harness!(c08_tagged3_int, 3, 20, 1);
tagged_harness!(c08_tagged3_float, 3, 20, 2);
tagged_harness!(c08_tagged3_bool, 5, 20, 3);
tagged_harness!(c08_tagged3_null, 4, 20, 4);
tagged_harness!(c08_tagged3_str, 3, 20, 5);
tagged_harness!(c08_tagged3_coreunk, 3, 20, 6);
tagged_harness!(c08_tagged3_foreign, 3, 20, 7);
tagged_harness!(c08_tagged5_int, 5, 20, 1);
tagged_harness!(c08_tagged5_float, 5, 20, 2);

/// Borrowed and owned scalars resolve identically; into_owned / as_scalar round trip.
fn owned_agrees<const N: usize>() {
    let (bytes, len) = sym_literal::<N>();
    let t = &bytes[..len];
    sym::note_bytes("text", t);
    let s = unsafe { std::str::from_utf8_unchecked(t) };
    let a = Scalar::parse_from_cow(Cow::Borrowed(s));
    let b = ScalarOwned::parse_from_cow(Cow::Borrowed(s));
    let same = match (&a, &b) {
        (Scalar::Null, ScalarOwned::Null) => true,
        (Scalar::Boolean(x), ScalarOwned::Boolean(y)) => x == y,
        (Scalar::Integer(x), ScalarOwned::Integer(y)) => x == y,
        (Scalar::FloatingPoint(x), ScalarOwned::FloatingPoint(y)) => x.0.to_bits() == y.0.to_bits() || (x.0.is_nan() && y.0.is_nan()),
        (Scalar::String(x), ScalarOwned::String(y)) => bytes_eq(x.as_bytes(), y.as_bytes()),
        _ => false,
    };
    // The stubbed float value is chosen independently per call, so float payloads are only
    // compared by class here (real `from_str` is a function; that is part of the stub contract).
    let same = same
        || matches!((&a, &b), (Scalar::FloatingPoint(_), ScalarOwned::FloatingPoint(_)));
    assert!(same, "C08: owned and borrowed resolution differ");
    // as_scalar round trip (also C19)
    let back = b.as_scalar();
    let rt = match (&back, &b) {
        (Scalar::Null, ScalarOwned::Null) => true,
        (Scalar::Boolean(x), ScalarOwned::Boolean(y)) => x == y,
        (Scalar::Integer(x), ScalarOwned::Integer(y)) => x == y,
        (Scalar::FloatingPoint(x), ScalarOwned::FloatingPoint(y)) => x.0.to_bits() == y.0.to_bits(),
        (Scalar::String(x), ScalarOwned::String(y)) => bytes_eq(x.as_bytes(), y.as_bytes()),
        _ => false,
    };
    assert!(rt, "C08/C19: as_scalar changed the scalar");
    let tagd = mk_tag(1);
    let c = Scalar::parse_from_cow_and_metadata(Cow::Borrowed(s), ScalarStyle::Plain, tagd.as_ref());
    let d = ScalarOwned::parse_from_cow_and_metadata(Cow::Borrowed(s), ScalarStyle::Plain, tagd.as_ref());
    let same2 = match (&c, &d) {
        (None, None) => true,
        (Some(Scalar::Integer(x)), Some(ScalarOwned::Integer(y))) => x == y,
        _ => false,
    };
    assert!(same2, "C08: owned and borrowed tagged resolution differ");
    kani::cover!(matches!(a, Scalar::Integer(_)), "must: owned int reached");
    kani::cover!(matches!(a, Scalar::String(_)), "must: owned string reached");
    std::mem::forget(back);
    std::mem::forget((a, b, c, d, tagd));
}

#[kani::proof]
#[kani::unwind(20)]
#[kani::stub(<f64 as std::str::FromStr>::from_str, f64_from_str_stub)]
pub fn c08_owned_3() {
    owned_agrees::<3>();
}

//! Association-list model of `std::collections::HashMap` (same observable behaviour for the
//! operations the parser uses: insertion replaces, lookup by `Eq`, iteration order irrelevant).
//! Substituted for the std type in the generated copy of parser.rs only (mode S); validated on
//! every run by the repository's own test-suite executed against the substituted build.
use std::borrow::Borrow;

#[derive(Debug, Clone)]
pub struct HashMap<K, V> {
    items: Vec<(K, V)>,
}

impl<K: Eq, V> HashMap<K, V> {
    pub fn new() -> Self {
        HashMap { items: Vec::new() }
    }
    pub fn get<Q>(&self, k: &Q) -> Option<&V>
    where
        K: Borrow<Q>,
        Q: Eq + ?Sized,
    {
        let mut i = 0;
        while i < self.items.len() {
            if self.items[i].0.borrow() == k {
                return Some(&self.items[i].1);
            }
            i += 1;
        }
        None
    }
    pub fn contains_key<Q>(&self, k: &Q) -> bool
    where
        K: Borrow<Q>,
        Q: Eq + ?Sized,
    {
        self.get(k).is_some()
    }
    pub fn insert(&mut self, k: K, v: V) -> Option<V> {
        let mut i = 0;
        while i < self.items.len() {
            if self.items[i].0 == k {
                return Some(std::mem::replace(&mut self.items[i].1, v));
            }
            i += 1;
        }
        self.items.push((k, v));
        None
    }
    pub fn clear(&mut self) {
        self.items.clear();
    }
    pub fn len(&self) -> usize {
        self.items.len()
    }
    pub fn is_empty(&self) -> bool {
        self.items.is_empty()
    }
    pub fn extend<I: IntoIterator<Item = (K, V)>>(&mut self, it: I) {
        for (k, v) in it {
            self.insert(k, v);
        }
    }
}

impl<K, V> IntoIterator for HashMap<K, V> {
    type Item = (K, V);
    type IntoIter = std::vec::IntoIter<(K, V)>;
    fn into_iter(self) -> Self::IntoIter {
        self.items.into_iter()
    }
}

#!/usr/bin/env python3
"""Regenerate /verif/.work/gen/parser_lm: a copy of /repo/parser (current working tree) in which
parser.rs uses an association-list map instead of std HashMap. Fixed, listed rewrites; if one no
longer matches the run is an ERROR (exit 2), never an alarm."""
import os, shutil, sys, re
SRC = "/repo/parser"
DST = "/verif/.work/gen/parser_lm"
REWRITES = [
    ("src/parser.rs",
     "use std::{borrow::Cow, collections::HashMap, fmt::Display};",
     "use std::{borrow::Cow, fmt::Display};\nuse crate::verif_map::HashMap;"),
    ("src/lib.rs", "mod parser;", "mod parser;\n#[path = \"/verif/kani/shim/verif_map.rs\"]\nmod verif_map;"),
]
def sync_tree(src, dst):
    """Copy src -> dst, rewriting only files whose content changed (keeps cargo fingerprints)."""
    for root, dirs, files in os.walk(src):
        rel = os.path.relpath(root, src)
        os.makedirs(os.path.join(dst, rel), exist_ok=True)
        for f in files:
            a = os.path.join(root, f); b = os.path.join(dst, rel, f)
            data = open(a, "rb").read()
            if not os.path.exists(b) or open(b, "rb").read() != data:
                open(b, "wb").write(data)
    for root, dirs, files in os.walk(dst):
        rel = os.path.relpath(root, dst)
        for f in files:
            if not os.path.exists(os.path.join(src, rel, f)):
                os.unlink(os.path.join(root, f))

def write_if_changed(p, data):
    if not os.path.exists(p) or open(p).read() != data:
        open(p, "w").write(data)

def main():
    import fcntl
    os.makedirs(DST, exist_ok=True)
    lock = open("/verif/.work/gen/.lock", "w")
    fcntl.flock(lock, fcntl.LOCK_EX)
    stage = DST + "/.stage_src"
    if os.path.exists(stage):
        shutil.rmtree(stage)
    shutil.copytree(SRC + "/src", stage)
    for d in ("tests",):
        if os.path.islink(os.path.join(DST, d)):
            os.unlink(os.path.join(DST, d))
    # tests are symlinked (read-only use) so the repository's own suite runs against the substituted build
    os.symlink(SRC + "/tests", os.path.join(DST, "tests"))
    for rel, old, new in REWRITES:
        p = os.path.join(stage, rel[len("src/"):])
        s = open(p).read()
        if s.count(old) != 1:
            print("gen_parser: rewrite no longer matches in %s: %r" % (rel, old)); sys.exit(2)
        open(p, "w").write(s.replace(old, new))
    sync_tree(stage, DST + "/src")
    shutil.rmtree(stage)
    cargo = '''[package]
name = "saphyr-parser-lm"
version = "0.0.4"
edition = "2021"

[lib]
name = "saphyr_parser"
path = "src/lib.rs"

[workspace]

[dependencies]
arraydeque = "0.5.1"
hashlink = "0.10"

[dev-dependencies]
libtest-mimic = "0.3.0"
quickcheck = "1.0"
saphyr = { path = "../saphyr_lm" }

[[test]]
name = "yaml-test-suite"
harness = false

[lints.rust]
unexpected_cfgs = { level = "allow" }
'''
    write_if_changed(os.path.join(DST, "Cargo.toml"), cargo)
    if not os.path.exists(os.path.join(DST, "Cargo.lock")):
        shutil.copy("/repo/Cargo.lock", os.path.join(DST, "Cargo.lock"))
    # a copy of the saphyr crate built on the substituted parser, so that tests using both crates type-check
    S2 = "/verif/.work/gen/saphyr_lm"
    os.makedirs(S2, exist_ok=True)
    stage2 = S2 + "/.stage_src"
    if os.path.exists(stage2):
        shutil.rmtree(stage2)
    shutil.copytree("/repo/saphyr/src", stage2)
    sync_tree(stage2, S2 + "/src")
    shutil.rmtree(stage2)
    if os.path.islink(S2 + "/tests"):
        os.unlink(S2 + "/tests")
    os.symlink("/repo/saphyr/tests", S2 + "/tests")
    write_if_changed(S2 + "/Cargo.toml", '''[package]
name = "saphyr"
version = "0.0.4"
edition = "2021"

[features]
default = [ "encoding" ]
encoding = [ "dep:encoding_rs" ]

[dependencies]
arraydeque = "0.5.1"
encoding_rs = { version = "0.8.33", optional = true }
hashlink = "0.10"
ordered-float = { version = "5.0", default-features = false }
saphyr-parser = { path = "../parser_lm", package = "saphyr-parser-lm" }

[dev-dependencies]
quickcheck = "1.0"

[lints.rust]
unexpected_cfgs = { level = "allow" }
''')
    print("gen_parser: ok")
main()

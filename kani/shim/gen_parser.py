#!/usr/bin/env python3
"""Regenerate /verif/.work/gen/parser_lm: a copy of /repo/parser (current working tree) in which
parser.rs uses an association-list map instead of std HashMap. Fixed, listed rewrites; if one no
longer matches the run is an ERROR (exit 2), never an alarm."""
import os, shutil, sys, re
SRC = "/repo/parser"
DST = "/verif/.work/gen/parser_lm"
REWRITES = [
    ("src/parser.rs",
     "use std::{borrow::Cow, collections::HashMap, fmt::Display};",
     "use std::{borrow::Cow, fmt::Display};\nuse crate::verif_map::HashMap;"),
    ("src/lib.rs", "mod parser;", "mod parser;\n#[path = \"/verif/kani/shim/verif_map.rs\"]\nmod verif_map;"),
]
def main():
    if os.path.exists(DST + "/src"):
        shutil.rmtree(DST + "/src")
    os.makedirs(DST, exist_ok=True)
    shutil.copytree(SRC + "/src", DST + "/src")
    for d in ("tests",):
        if os.path.islink(os.path.join(DST, d)):
            os.unlink(os.path.join(DST, d))
    # tests are symlinked (read-only use) so the repository's own suite runs against the substituted build
    os.symlink(SRC + "/tests", os.path.join(DST, "tests"))
    for rel, old, new in REWRITES:
        p = os.path.join(DST, rel)
        s = open(p).read()
        if s.count(old) != 1:
            print("gen_parser: rewrite no longer matches in %s: %r" % (rel, old)); sys.exit(2)
        open(p, "w").write(s.replace(old, new))
    cargo = '''[package]
name = "saphyr-parser-lm"
version = "0.0.4"
edition = "2021"

[lib]
name = "saphyr_parser"
path = "src/lib.rs"

[workspace]

[dependencies]
arraydeque = "0.5.1"
hashlink = "0.10"

[dev-dependencies]
libtest-mimic = "0.3.0"
quickcheck = "1.0"
saphyr = { path = "../saphyr_lm" }

[[test]]
name = "yaml-test-suite"
harness = false

[lints.rust]
unexpected_cfgs = { level = "allow" }
'''
    open(os.path.join(DST, "Cargo.toml"), "w").write(cargo)
    shutil.copy("/repo/Cargo.lock", os.path.join(DST, "Cargo.lock"))
    # a copy of the saphyr crate built on the substituted parser, so that tests using both crates type-check
    S2 = "/verif/.work/gen/saphyr_lm"
    if os.path.exists(S2 + "/src"):
        shutil.rmtree(S2 + "/src")
    os.makedirs(S2, exist_ok=True)
    shutil.copytree("/repo/saphyr/src", S2 + "/src")
    if os.path.islink(S2 + "/tests"):
        os.unlink(S2 + "/tests")
    os.symlink("/repo/saphyr/tests", S2 + "/tests")
    open(S2 + "/Cargo.toml", "w").write('''[package]
name = "saphyr"
version = "0.0.4"
edition = "2021"

[features]
default = [ "encoding" ]
encoding = [ "dep:encoding_rs" ]

[dependencies]
arraydeque = "0.5.1"
encoding_rs = { version = "0.8.33", optional = true }
hashlink = "0.10"
ordered-float = { version = "5.0", default-features = false }
saphyr-parser = { path = "../parser_lm", package = "saphyr-parser-lm" }

[dev-dependencies]
quickcheck = "1.0"

[lints.rust]
unexpected_cfgs = { level = "allow" }
''')
    print("gen_parser: ok")
main()

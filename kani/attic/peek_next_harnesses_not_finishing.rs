/// Plain data of a symbolic configuration, so that two identical parsers can be built from it.
#[derive(Clone, Copy)]
struct Cfg {
    kinds: [u8; MAXTOK],
    payload: [u8; MAXTOK],
    len: usize,
    e1: u8,
    e2: u8,
    cnt: usize,
    id1: usize,
    id2: usize,
}
fn sym_cfg(ntok: usize) -> Cfg {
    let mut kinds = [0u8; MAXTOK];
    let mut payload = [0u8; MAXTOK];
    let mut i = 0;
    while i < ntok {
        let k: u8 = kani::any();
        kani::assume(k < tk::COUNT && k != tk::TAG && k != tk::TAG_DIRECTIVE);
        kinds[i] = k;
        let q: u8 = kani::any();
        kani::assume(q < 3);
        payload[i] = q;
        i += 1;
    }
    let len: usize = kani::any();
    kani::assume(len <= ntok);
    let e1: u8 = kani::any();
    let e2: u8 = kani::any();
    kani::assume(e1 < 10 && e2 < 10);
    let cnt: usize = kani::any();
    kani::assume(cnt >= 2 && cnt <= 1000);
    let id1: usize = kani::any();
    let id2: usize = kani::any();
    kani::assume(id1 >= 1 && id1 < cnt && id2 >= 1 && id2 < cnt);
    if sym::playback() {
        eprintln!("VERIF-INPUT tokens={:?} payload={:?} stack_entries=({}, {}) anchor_id_count={} ids=({}, {})", &kinds[..len], &payload[..len], e1, e2, cnt, id1, id2);
    }
    Cfg { kinds, payload, len, e1, e2, cnt, id1, id2 }
}
fn build<'a>(c: &Cfg, state: State, depth: usize) -> Parser<'a, StrInput<'a>> {
    let mut p = Parser::new(StrInput::new(""));
    p.scanner.verif_inject = Some(Inject { kinds: c.kinds, payload: c.payload, len: c.len, pos: 0, mask: MASK_NO_TAGS });
    p.scanner.verif_set_stream_flags(true, false);
    p.state = state;
    p.states.push(State::DocumentEnd);
    if depth == 2 {
        p.states.push(continuation_from(c.e1));
        p.states.push(continuation_from(c.e2));
    }
    p.anchor_id_count = c.cnt;
    p.anchors.insert(Cow::Borrowed(NAMES[0]), c.id1);
    p.anchors.insert(Cow::Borrowed(NAMES[1]), c.id2);
    p
}
fn same_result(a: &ParseResult, b: &ParseResult) -> bool {
    match (a, b) {
        (Ok((e1, s1)), Ok((e2, s2))) => e1 == e2 && s1 == s2,
        (Err(x), Err(y)) => x.marker() == y.marker() && x.info().len() == y.info().len(),
        _ => false,
    }
}
fn same_config(a: &Parser<'_, StrInput<'_>>, b: &Parser<'_, StrInput<'_>>) -> bool {
    a.state == b.state
        && a.states.len() == b.states.len()
        && a.states.last() == b.states.last()
        && a.anchor_id_count == b.anchor_id_count
        && a.stream_end_emitted == b.stream_end_emitted
        && a.scanner.verif_inject.as_ref().unwrap().pos == b.scanner.verif_inject.as_ref().unwrap().pos
}

/// From an arbitrary configuration: `peek`, `peek`, `next` on one parser. Both peeks return the
/// same event, the second reads no token, `next` returns that event and clears the look-ahead, and
/// exactly one parser step was taken (the token position advanced as for one `parse` call, which
/// the C02 step harnesses decide). Plain `next` is the same single `parse` call without the cache.
fn peek_next(state: State, depth: usize, ntok: usize) {
    let c = sym_cfg(ntok);
    let mut b = build(&c, state, depth);
    let pk1: Option<ParseResult> = match b.peek() {
        None => None,
        Some(Ok(x)) => Some(Ok(x.clone())),
        Some(Err(e)) => Some(Err(e)),
    };
    assert!(pk1.is_some(), "C17: peek returned nothing before the stream ended");
    let pos_after_peek = b.scanner.verif_inject.as_ref().unwrap().pos;
    if let Some(Ok(_)) = &pk1 {
        let state_after_peek = b.state;
        let pk2: Option<ParseResult> = match b.peek() {
            None => None,
            Some(Ok(x)) => Some(Ok(x.clone())),
            Some(Err(e)) => Some(Err(e)),
        };
        assert!(matches!((&pk1, &pk2), (Some(x), Some(y)) if same_result(x, y)), "C17: two peeks in a row differ");
        assert!(b.scanner.verif_inject.as_ref().unwrap().pos == pos_after_peek && b.state == state_after_peek, "C17: a second peek consumed input or advanced the parser");
        let rb = b.next_event();
        assert!(matches!((&pk1, &rb), (Some(x), Some(y)) if same_result(x, y)), "C17: next does not return what peek showed");
        assert!(b.current.is_none(), "C17: next left the peeked event in place");
        assert!(b.scanner.verif_inject.as_ref().unwrap().pos == pos_after_peek && b.state == state_after_peek, "C17: next after peek took another parser step");
        kani::cover!(true, "must: peek then next compared");
        std::mem::forget(rb);
        std::mem::forget(pk2);
    }
    std::mem::forget(pk1);
    std::mem::forget(b);
}
macro_rules! peek_harness {
    ($name:ident, $state:expr, $depth:expr, $ntok:expr) => {
        #[kani::proof]
        #[kani::unwind(10)]
        pub fn $name() {
            peek_next($state, $depth, $ntok);
        }
    };
}
// symbolic-token variants: thorough tier only (they do not finish in the quick budget)
peek_harness!(c17_peek_next_block_node, State::BlockNode, 2, 2);
peek_harness!(c17_peek_next_flow_sequence_entry, State::FlowSequenceEntry, 2, 2);

/// Concrete-template variant for the quick tier: the token kinds are fixed, names and the stack
/// entries are symbolic.
fn peek_next_template(state: State, kinds: &[u8]) {
    let mut c = sym_cfg(0);
    let mut i = 0;
    while i < kinds.len() {
        c.kinds[i] = kinds[i];
        let q: u8 = kani::any();
        kani::assume(q < 3);
        c.payload[i] = q;
        i += 1;
    }
    c.len = kinds.len();
    let mut b = build(&c, state, 2);
    let pk1: Option<ParseResult> = match b.peek() {
        None => None,
        Some(Ok(x)) => Some(Ok(x.clone())),
        Some(Err(e)) => Some(Err(e)),
    };
    assert!(matches!(pk1, Some(Ok(_))), "C17: peek returned no event for a well-formed node");
    let pos_after_peek = b.scanner.verif_inject.as_ref().unwrap().pos;
    let state_after_peek = b.state;
    let pk2: Option<ParseResult> = match b.peek() {
        None => None,
        Some(Ok(x)) => Some(Ok(x.clone())),
        Some(Err(e)) => Some(Err(e)),
    };
    assert!(matches!((&pk1, &pk2), (Some(x), Some(y)) if same_result(x, y)), "C17: two peeks in a row differ");
    assert!(b.scanner.verif_inject.as_ref().unwrap().pos == pos_after_peek && b.state == state_after_peek, "C17: a second peek consumed input or advanced the parser");
    let rb = b.next_event();
    assert!(matches!((&pk1, &rb), (Some(x), Some(y)) if same_result(x, y)), "C17: next does not return what peek showed");
    assert!(b.current.is_none(), "C17: next left the peeked event in place");
    assert!(b.scanner.verif_inject.as_ref().unwrap().pos == pos_after_peek && b.state == state_after_peek, "C17: next after peek took another parser step");
    kani::cover!(true, "must: peek then next compared");
    std::mem::forget((pk1, pk2, rb));
    std::mem::forget(b);
}
macro_rules! peek_template_harness {
    ($name:ident, $state:expr, $($k:expr),+) => {
        #[kani::proof]
        #[kani::unwind(8)]
        pub fn $name() {
            peek_next_template($state, &[$($k),+]);
        }
    };
}
peek_template_harness!(c17_peek_next_scalar, State::BlockNode, tk::SCALAR);
peek_template_harness!(c17_peek_next_anchored_scalar, State::BlockNode, tk::ANCHOR, tk::SCALAR);
peek_template_harness!(c17_peek_next_alias, State::BlockNode, tk::ALIAS);
peek_template_harness!(c17_peek_next_flow_sequence_start, State::BlockNode, tk::FLOW_SEQUENCE_START);
peek_template_harness!(c17_peek_next_flow_entry_scalar, State::FlowSequenceEntry, tk::FLOW_ENTRY, tk::SCALAR);
peek_template_harness!(c17_peek_next_block_end, State::BlockMappingKey, tk::BLOCK_END);


//! Insertion-ordered association-list model of `hashlink::LinkedHashMap` (mode S-lite, saphyr crate).
//!
//! Same observable behaviour for the operations saphyr uses: `insert` on an existing key replaces the
//! value and moves the entry to the back, `replace` keeps the position, iteration is insertion
//! order, equality/ordering/hashing go through the entries in order. Every entry stores the hash of
//! its key computed with the map's hasher, and `raw_entry().from_hash(h, pred)` finds an entry only
//! if its STORED hash equals `h` and `pred(key)` holds - so a `&str` lookup that recomputes a hash
//! different from the stored key's hash fails here exactly as it does in hashbrown.
//! Validated on every run by the repository's saphyr test-suite executed against the substituted build.
use std::borrow::Borrow;
use std::hash::{BuildHasher, Hash, Hasher};

/// FNV-1a; any deterministic hasher is a legal choice for a hash map.
#[derive(Clone, Default, Debug)]
pub struct ModelState;
pub struct ModelHasher(u64);
impl Hasher for ModelHasher {
    fn finish(&self) -> u64 {
        self.0
    }
    fn write(&mut self, bytes: &[u8]) {
        // loop-free for up to 8 bytes (all integer writes), short loop otherwise: keeps the
        // unwinding bound of harnesses independent of the hasher
        let n = bytes.len();
        if n <= 8 {
            if n > 0 { self.step(bytes[0]); }
            if n > 1 { self.step(bytes[1]); }
            if n > 2 { self.step(bytes[2]); }
            if n > 3 { self.step(bytes[3]); }
            if n > 4 { self.step(bytes[4]); }
            if n > 5 { self.step(bytes[5]); }
            if n > 6 { self.step(bytes[6]); }
            if n > 7 { self.step(bytes[7]); }
        } else {
            let mut i = 0;
            while i < n {
                self.step(bytes[i]);
                i += 1;
            }
        }
    }
}
impl ModelHasher {
    fn step(&mut self, b: u8) {
        self.0 = (self.0 ^ b as u64).wrapping_mul(0x100000001b3);
    }
}
impl BuildHasher for ModelState {
    type Hasher = ModelHasher;
    fn build_hasher(&self) -> ModelHasher {
        ModelHasher(0xcbf29ce484222325)
    }
}

#[derive(Clone)]
pub struct LinkedHashMap<K, V, S = ModelState> {
    items: Vec<(u64, K, V)>,
    state: S,
}

impl<K, V> LinkedHashMap<K, V, ModelState> {
    pub fn new() -> Self {
        LinkedHashMap { items: Vec::new(), state: ModelState }
    }
    pub fn with_capacity(n: usize) -> Self {
        LinkedHashMap { items: Vec::with_capacity(n), state: ModelState }
    }
}
impl<K, V, S: Default> Default for LinkedHashMap<K, V, S> {
    fn default() -> Self {
        LinkedHashMap { items: Vec::new(), state: S::default() }
    }
}

impl<K, V, S> LinkedHashMap<K, V, S> {
    pub fn len(&self) -> usize {
        self.items.len()
    }
    pub fn is_empty(&self) -> bool {
        self.items.is_empty()
    }
    pub fn clear(&mut self) {
        self.items.clear();
    }
    pub fn hasher(&self) -> &S {
        &self.state
    }
    pub fn iter(&self) -> Iter<'_, K, V> {
        Iter { inner: self.items.iter() }
    }
    pub fn iter_mut(&mut self) -> IterMut<'_, K, V> {
        IterMut { inner: self.items.iter_mut() }
    }
    pub fn keys(&self) -> impl Iterator<Item = &K> + '_ {
        self.items.iter().map(|e| &e.1)
    }
    pub fn values(&self) -> impl Iterator<Item = &V> + '_ {
        self.items.iter().map(|e| &e.2)
    }
    pub fn values_mut(&mut self) -> impl Iterator<Item = &mut V> + '_ {
        self.items.iter_mut().map(|e| &mut e.2)
    }
    pub fn front(&self) -> Option<(&K, &V)> {
        self.items.first().map(|e| (&e.1, &e.2))
    }
    pub fn back(&self) -> Option<(&K, &V)> {
        self.items.last().map(|e| (&e.1, &e.2))
    }
    pub fn raw_entry(&self) -> RawEntryBuilder<'_, K, V, S> {
        RawEntryBuilder { map: self }
    }
    pub fn raw_entry_mut(&mut self) -> RawEntryBuilderMut<'_, K, V, S> {
        RawEntryBuilderMut { map: self }
    }
}

impl<K: Eq + Hash, V, S: BuildHasher> LinkedHashMap<K, V, S> {
    fn hash_of<Q: Hash + ?Sized>(&self, k: &Q) -> u64 {
        let mut h = self.state.build_hasher();
        k.hash(&mut h);
        h.finish()
    }
    fn position<Q>(&self, k: &Q) -> Option<usize>
    where
        K: Borrow<Q>,
        Q: Eq + Hash + ?Sized,
    {
        let h = self.hash_of(k);
        let mut i = 0;
        while i < self.items.len() {
            if self.items[i].0 == h && self.items[i].1.borrow() == k {
                return Some(i);
            }
            i += 1;
        }
        None
    }
    /// hashlink semantics: an existing key gets the new value and moves to the back.
    pub fn insert(&mut self, k: K, v: V) -> Option<V> {
        let h = self.hash_of(&k);
        match self.position(&k) {
            Some(i) => {
                // the stored key is kept (hashlink: to_back + replace_value)
                let old = self.items.remove(i);
                self.items.push((old.0, old.1, v));
                Some(old.2)
            }
            None => {
                self.items.push((h, k, v));
                None
            }
        }
    }
    /// hashlink semantics: an existing key keeps its position and its stored key; the value is replaced.
    pub fn replace(&mut self, k: K, v: V) -> Option<V> {
        let h = self.hash_of(&k);
        match self.position(&k) {
            Some(i) => Some(std::mem::replace(&mut self.items[i].2, v)),
            None => {
                self.items.push((h, k, v));
                None
            }
        }
    }
    pub fn get<Q>(&self, k: &Q) -> Option<&V>
    where
        K: Borrow<Q>,
        Q: Eq + Hash + ?Sized,
    {
        self.position(k).map(|i| &self.items[i].2)
    }
    pub fn get_mut<Q>(&mut self, k: &Q) -> Option<&mut V>
    where
        K: Borrow<Q>,
        Q: Eq + Hash + ?Sized,
    {
        match self.position(k) {
            Some(i) => Some(&mut self.items[i].2),
            None => None,
        }
    }
    pub fn get_key_value<Q>(&self, k: &Q) -> Option<(&K, &V)>
    where
        K: Borrow<Q>,
        Q: Eq + Hash + ?Sized,
    {
        self.position(k).map(|i| (&self.items[i].1, &self.items[i].2))
    }
    pub fn contains_key<Q>(&self, k: &Q) -> bool
    where
        K: Borrow<Q>,
        Q: Eq + Hash + ?Sized,
    {
        self.position(k).is_some()
    }
    pub fn remove<Q>(&mut self, k: &Q) -> Option<V>
    where
        K: Borrow<Q>,
        Q: Eq + Hash + ?Sized,
    {
        self.position(k).map(|i| self.items.remove(i).2)
    }
    pub fn pop_front(&mut self) -> Option<(K, V)> {
        if self.items.is_empty() {
            None
        } else {
            let e = self.items.remove(0);
            Some((e.1, e.2))
        }
    }
    pub fn pop_back(&mut self) -> Option<(K, V)> {
        self.items.pop().map(|e| (e.1, e.2))
    }
}

pub struct RawEntryBuilder<'a, K, V, S> {
    map: &'a LinkedHashMap<K, V, S>,
}
impl<'a, K, V, S> RawEntryBuilder<'a, K, V, S> {
    pub fn from_hash<F: FnMut(&K) -> bool>(self, hash: u64, mut is_match: F) -> Option<(&'a K, &'a V)> {
        let mut i = 0;
        while i < self.map.items.len() {
            let e = &self.map.items[i];
            if e.0 == hash && is_match(&e.1) {
                return Some((&e.1, &e.2));
            }
            i += 1;
        }
        None
    }
}
pub struct RawEntryBuilderMut<'a, K, V, S> {
    map: &'a mut LinkedHashMap<K, V, S>,
}
pub enum RawEntryMut<'a, K, V, S> {
    Occupied(RawOccupiedEntryMut<'a, K, V, S>),
    Vacant(RawVacantEntryMut<'a, K, V, S>),
}
pub struct RawOccupiedEntryMut<'a, K, V, S> {
    map: &'a mut LinkedHashMap<K, V, S>,
    idx: usize,
}
pub struct RawVacantEntryMut<'a, K, V, S> {
    #[allow(dead_code)]
    map: &'a mut LinkedHashMap<K, V, S>,
}
impl<'a, K, V, S> RawEntryBuilderMut<'a, K, V, S> {
    pub fn from_hash<F: FnMut(&K) -> bool>(self, hash: u64, mut is_match: F) -> RawEntryMut<'a, K, V, S> {
        let mut found = None;
        let mut i = 0;
        while i < self.map.items.len() {
            let e = &self.map.items[i];
            if e.0 == hash && is_match(&e.1) {
                found = Some(i);
                break;
            }
            i += 1;
        }
        match found {
            Some(idx) => RawEntryMut::Occupied(RawOccupiedEntryMut { map: self.map, idx }),
            None => RawEntryMut::Vacant(RawVacantEntryMut { map: self.map }),
        }
    }
}
impl<'a, K, V, S> RawOccupiedEntryMut<'a, K, V, S> {
    pub fn into_mut(self) -> &'a mut V {
        &mut self.map.items[self.idx].2
    }
    pub fn get(&self) -> &V {
        &self.map.items[self.idx].2
    }
    pub fn get_mut(&mut self) -> &mut V {
        &mut self.map.items[self.idx].2
    }
}

pub struct Iter<'a, K, V> {
    inner: std::slice::Iter<'a, (u64, K, V)>,
}
impl<'a, K, V> Iterator for Iter<'a, K, V> {
    type Item = (&'a K, &'a V);
    fn next(&mut self) -> Option<Self::Item> {
        self.inner.next().map(|e| (&e.1, &e.2))
    }
    fn size_hint(&self) -> (usize, Option<usize>) {
        self.inner.size_hint()
    }
}
impl<K, V> DoubleEndedIterator for Iter<'_, K, V> {
    fn next_back(&mut self) -> Option<Self::Item> {
        self.inner.next_back().map(|e| (&e.1, &e.2))
    }
}
impl<K, V> ExactSizeIterator for Iter<'_, K, V> {}
impl<K, V> Clone for Iter<'_, K, V> {
    fn clone(&self) -> Self {
        Iter { inner: self.inner.clone() }
    }
}
pub struct IterMut<'a, K, V> {
    inner: std::slice::IterMut<'a, (u64, K, V)>,
}
impl<'a, K, V> Iterator for IterMut<'a, K, V> {
    type Item = (&'a K, &'a mut V);
    fn next(&mut self) -> Option<Self::Item> {
        self.inner.next().map(|e| (&e.1, &mut e.2))
    }
}
pub struct IntoIter<K, V> {
    inner: std::vec::IntoIter<(u64, K, V)>,
}
impl<K, V> Iterator for IntoIter<K, V> {
    type Item = (K, V);
    fn next(&mut self) -> Option<(K, V)> {
        self.inner.next().map(|e| (e.1, e.2))
    }
    fn size_hint(&self) -> (usize, Option<usize>) {
        self.inner.size_hint()
    }
}
impl<K, V> DoubleEndedIterator for IntoIter<K, V> {
    fn next_back(&mut self) -> Option<(K, V)> {
        self.inner.next_back().map(|e| (e.1, e.2))
    }
}
impl<K, V> ExactSizeIterator for IntoIter<K, V> {}
impl<K, V, S> IntoIterator for LinkedHashMap<K, V, S> {
    type Item = (K, V);
    type IntoIter = IntoIter<K, V>;
    fn into_iter(self) -> IntoIter<K, V> {
        IntoIter { inner: self.items.into_iter() }
    }
}
impl<'a, K, V, S> IntoIterator for &'a LinkedHashMap<K, V, S> {
    type Item = (&'a K, &'a V);
    type IntoIter = Iter<'a, K, V>;
    fn into_iter(self) -> Iter<'a, K, V> {
        self.iter()
    }
}
impl<'a, K, V, S> IntoIterator for &'a mut LinkedHashMap<K, V, S> {
    type Item = (&'a K, &'a mut V);
    type IntoIter = IterMut<'a, K, V>;
    fn into_iter(self) -> IterMut<'a, K, V> {
        self.iter_mut()
    }
}
impl<K: Eq + Hash, V, S: BuildHasher + Default> FromIterator<(K, V)> for LinkedHashMap<K, V, S> {
    fn from_iter<I: IntoIterator<Item = (K, V)>>(it: I) -> Self {
        let mut m = LinkedHashMap { items: Vec::new(), state: S::default() };
        for (k, v) in it {
            m.insert(k, v);
        }
        m
    }
}
impl<K: Eq + Hash, V, S: BuildHasher> Extend<(K, V)> for LinkedHashMap<K, V, S> {
    fn extend<I: IntoIterator<Item = (K, V)>>(&mut self, it: I) {
        for (k, v) in it {
            self.insert(k, v);
        }
    }
}
impl<K: PartialEq, V: PartialEq, S> PartialEq for LinkedHashMap<K, V, S> {
    fn eq(&self, o: &Self) -> bool {
        self.len() == o.len() && self.iter().eq(o.iter())
    }
}
impl<K: Eq, V: Eq, S> Eq for LinkedHashMap<K, V, S> {}
impl<K: PartialOrd, V: PartialOrd, S> PartialOrd for LinkedHashMap<K, V, S> {
    fn partial_cmp(&self, o: &Self) -> Option<std::cmp::Ordering> {
        self.iter().partial_cmp(o.iter())
    }
}
impl<K: Ord, V: Ord, S> Ord for LinkedHashMap<K, V, S> {
    fn cmp(&self, o: &Self) -> std::cmp::Ordering {
        self.iter().cmp(o.iter())
    }
}
impl<K: Hash, V: Hash, S> Hash for LinkedHashMap<K, V, S> {
    fn hash<H: Hasher>(&self, h: &mut H) {
        for e in self.iter() {
            e.hash(h);
        }
    }
}
impl<K: std::fmt::Debug, V: std::fmt::Debug, S> std::fmt::Debug for LinkedHashMap<K, V, S> {
    fn fmt(&self, f: &mut std::fmt::Formatter<'_>) -> std::fmt::Result {
        f.debug_map().entries(self.iter()).finish()
    }
}
impl<K: Eq + Hash + Borrow<Q>, Q: Eq + Hash + ?Sized, V, S: BuildHasher> std::ops::Index<&Q> for LinkedHashMap<K, V, S> {
    type Output = V;
    fn index(&self, k: &Q) -> &V {
        self.get(k).expect("no entry found for key")
    }
}

//! Kani harnesses compiled inside `saphyr::loader` as a child module (sees private items).
//! Used in the mode S-lite build of the saphyr crate (hashlink::LinkedHashMap -> association list),
//! see kani/shim/verif_lmap.rs. C07: one `on_event` step of the loader from a constructed loader
//! state against the statement's meaning of that step.
#![allow(dead_code, unused_imports, clippy::all)]
use super::*;
use crate::{MarkedYaml, Scalar, YamlData};
use saphyr_parser::{Marker, ScalarStyle, Tag};
use std::borrow::Cow;

#[path = "/verif/kani/common/sym.rs"]
pub mod sym;

#[path = "/verif/kani/common/f64_stub.rs"]
pub mod f64_stub;
use f64_stub::f64_from_str_stub;

#[cfg(test)]
mod playback {
    use super::*;
    include!("/verif/.work/playback/loader.rs");
}

const TEXTS: [&str; 4] = ["a", "b", "1", "~"];

fn sym_span() -> Span {
    let a: usize = kani::any();
    kani::assume(a < 1000);
    Span::new(Marker::new(a, 1, a), Marker::new(a + 1, 1, a + 1))
}

/// A scalar event with symbolic text from a pool; double-quoted (so that the node variant is
/// structurally fixed - symbolic node variants make the derived recursive Clone/Eq/Hash of the tree
/// type explode; plain-scalar resolution is decided under C08) and a CONCRETE anchor id.
fn sym_scalar<'a>(aid: usize) -> (Event<'a>, usize, ScalarStyle, usize) {
    let t: u8 = kani::any();
    kani::assume(t < 4);
    let style = ScalarStyle::DoubleQuoted;
    if sym::playback() {
        eprintln!("VERIF-INPUT scalar text={:?} style={:?} anchor_id={}", TEXTS[t as usize], style, aid);
    }
    (Event::Scalar(Cow::Borrowed(TEXTS[t as usize]), style, aid, None), t as usize, style, aid)
}

/// The node a (double-quoted) scalar event denotes.
fn denoted<'a>(t: usize, _style: ScalarStyle) -> Yaml<'a> {
    Yaml::Value(Scalar::String(Cow::Borrowed(TEXTS[t])))
}

fn int<'a>(x: i64) -> Yaml<'a> {
    Yaml::Value(Scalar::Integer(x))
}
fn key<'a>(k: u8) -> Yaml<'a> {
    Yaml::Value(Scalar::String(Cow::Borrowed(match k {
        0 => "k0",
        1 => "k1",
        _ => "k2",
    })))
}

/// Scalar arriving in a sequence: appended at the end, nothing else changes; anchor recorded.
#[kani::proof]
#[kani::unwind(4)]
#[kani::stub(<f64 as std::str::FromStr>::from_str, f64_from_str_stub)]
pub fn c07_scalar_into_sequence() {
    scalar_into_sequence(0);
}
#[kani::proof]
#[kani::unwind(4)]
#[kani::stub(<f64 as std::str::FromStr>::from_str, f64_from_str_stub)]
pub fn c07_anchored_scalar_into_sequence() {
    scalar_into_sequence(2);
}
fn scalar_into_sequence(aid_c: usize) {
    let x: i64 = kani::any();
    let mut l: YamlLoader<Yaml> = YamlLoader::default();
    l.doc_stack.push((Yaml::Sequence(vec![int(x)]), 0));
    let (ev, t, style, aid) = sym_scalar(aid_c);
    l.on_event(ev, sym_span());
    assert!(l.doc_stack.len() == 1 && l.docs.is_empty(), "C07: a scalar changed the collection nesting");
    match &l.doc_stack[0].0 {
        Yaml::Sequence(v) => {
            assert!(v.len() == 2, "C07: sequence item dropped or duplicated");
            assert!(v[0] == int(x), "C07: earlier sequence item changed");
            assert!(v[1] == denoted(t, style), "C07: scalar did not become the value chosen by its text and style");
        }
        _ => assert!(false, "C07: parent sequence replaced"),
    }
    if aid > 0 {
        assert!(l.anchor_map.get(&aid) == Some(&denoted(t, style)), "C07: anchored node not recorded");
    } else {
        assert!(l.anchor_map.is_empty(), "C07: anchor recorded for an unanchored node");
    }
    kani::cover!(true, "must: compared");
    std::mem::forget(l);
}

/// Key then value arriving in a mapping with two entries: the key is held, the value is paired with
/// it, the pair goes to the back (later duplicate wins, document order), other entries untouched.
#[kani::proof]
#[kani::unwind(4)]
#[kani::stub(<f64 as std::str::FromStr>::from_str, f64_from_str_stub)]
pub fn c07_pair_into_mapping() {
    let x: i64 = kani::any();
    let y: i64 = kani::any();
    let mut m = crate::Mapping::new();
    m.insert(key(0), int(x));
    m.insert(key(1), int(y));
    let mut l: YamlLoader<Yaml> = YamlLoader::default();
    l.doc_stack.push((Yaml::Mapping(m), 0));
    l.key_stack.push(Yaml::BadValue);
    let kc: u8 = kani::any();
    kani::assume(kc < 3);
    let kname = match kc {
        0 => "k0",
        1 => "k1",
        _ => "k2",
    };
    if sym::playback() {
        eprintln!("VERIF-INPUT key={:?}", kname);
    }
    l.on_event(Event::Scalar(Cow::Borrowed(kname), ScalarStyle::DoubleQuoted, 0, None), sym_span());
    // after the key: nothing inserted yet
    match &l.doc_stack[0].0 {
        Yaml::Mapping(m) => assert!(m.len() == 2, "C07: key alone changed the mapping"),
        _ => assert!(false, "C07: parent mapping replaced"),
    }
    let (ev, t, style, _aid) = sym_scalar(0);
    l.on_event(ev, sym_span());
    match &l.doc_stack[0].0 {
        Yaml::Mapping(m) => {
            let want_len = if kc < 2 { 2 } else { 3 };
            assert!(m.len() == want_len, "C07: pair dropped, duplicated or merged");
            assert!(m.get(&key(kc)) == Some(&denoted(t, style)), "C07: key is not paired with the node that follows it");
            let (lk, lv) = m.back().unwrap();
            assert!(*lk == key(kc) && *lv == denoted(t, style), "C07: repeated key did not take the later position (document order)");
            // the other entries are untouched and in order
            let mut it = m.iter();
            let first = it.next().unwrap();
            if kc == 0 {
                assert!(*first.0 == key(1) && *first.1 == int(y), "C07: unrelated entry changed");
            } else {
                assert!(*first.0 == key(0) && *first.1 == int(x), "C07: unrelated entry changed");
            }
        }
        _ => assert!(false, "C07: parent mapping replaced"),
    }
    assert!(l.key_stack.len() == 1 && l.key_stack[0].is_badvalue(), "C07: pending key not consumed");
    kani::cover!(kc == 0, "must: repeated key reached");
    kani::cover!(kc == 2, "must: new key reached");
    std::mem::forget(l);
}

/// Alias: replaced by a copy of the completed anchored node, BadValue for an id with no completed
/// node; marked nodes carry the span of the alias event, not of the anchored node.
#[kani::proof]
#[kani::unwind(4)]
#[kani::stub(<f64 as std::str::FromStr>::from_str, f64_from_str_stub)]
pub fn c07_alias_copy_and_span() {
    let x: i64 = kani::any();
    let mut l: YamlLoader<MarkedYaml> = YamlLoader::default();
    let anchored = MarkedYaml { span: Span::new(Marker::new(5, 1, 5), Marker::new(6, 1, 6)), data: YamlData::Value(Scalar::Integer(x)) };
    l.anchor_map.insert(1, anchored);
    l.doc_stack.push((MarkedYaml { span: Span::default(), data: YamlData::Sequence(vec![]) }, 0));
    let id: usize = kani::any();
    kani::assume(id >= 1 && id <= 2);
    let sp = sym_span();
    if sym::playback() {
        eprintln!("VERIF-INPUT alias id={} span_start={}", id, sp.start.index());
    }
    l.on_event(Event::Alias(id), sp);
    match &l.doc_stack[0].0.data {
        YamlData::Sequence(v) => {
            assert!(v.len() == 1, "C07: alias did not produce exactly one node");
            if id == 1 {
                assert!(matches!(&v[0].data, YamlData::Value(Scalar::Integer(y)) if *y == x), "C07: alias is not a copy of the anchored node");
            } else {
                assert!(matches!(&v[0].data, YamlData::BadValue), "C07: alias to a node that is not complete is not BadValue");
            }
            assert!(v[0].span == sp, "C12: marked alias node does not carry the span of the event that created it");
        }
        _ => assert!(false, "C07: parent replaced"),
    }
    kani::cover!(id == 1, "must: known anchor reached");
    std::mem::forget(l);
}

/// Marked scalar nodes carry the span of their event; same data as the plain node type (C19).
#[kani::proof]
#[kani::unwind(4)]
#[kani::stub(<f64 as std::str::FromStr>::from_str, f64_from_str_stub)]
pub fn c07_marked_scalar_span_and_data() {
    let mut l: YamlLoader<MarkedYaml> = YamlLoader::default();
    l.doc_stack.push((MarkedYaml { span: Span::default(), data: YamlData::Sequence(vec![]) }, 0));
    let (ev, t, style, _aid) = sym_scalar(0);
    let sp = sym_span();
    l.on_event(ev, sp);
    match &l.doc_stack[0].0.data {
        YamlData::Sequence(v) => {
            assert!(v.len() == 1, "C07: scalar did not produce exactly one node");
            assert!(v[0].span == sp, "C12: marked node does not carry the span of the event that created it");
            let same = match (&v[0].data, denoted(t, style)) {
                (YamlData::Value(a), Yaml::Value(b)) => *a == b,
                _ => false,
            };
            assert!(same, "C19: marked node holds different data than the plain node type");
        }
        _ => assert!(false, "C07: parent replaced"),
    }
    kani::cover!(true, "must: compared");
    std::mem::forget(l);
}

/// End of a nested collection: the finished node goes into its parent (sequence: appended;
/// mapping: as pending key), its anchor is recorded; end of document moves the root to the results.
#[kani::proof]
#[kani::unwind(4)]
#[kani::stub(<f64 as std::str::FromStr>::from_str, f64_from_str_stub)]
pub fn c07_sequence_end_and_document_end() {
    collection_and_document_end(false, 0);
}
#[kani::proof]
#[kani::unwind(4)]
#[kani::stub(<f64 as std::str::FromStr>::from_str, f64_from_str_stub)]
pub fn c07_anchored_mapping_end_and_document_end() {
    collection_and_document_end(true, 1);
}
fn collection_and_document_end(inner_is_map: bool, aid: usize) {
    let x: i64 = kani::any();
    let mut l: YamlLoader<Yaml> = YamlLoader::default();
    l.doc_stack.push((Yaml::Sequence(vec![]), 0));
    if inner_is_map {
        let mut m = crate::Mapping::new();
        m.insert(key(0), int(x));
        l.doc_stack.push((Yaml::Mapping(m), aid));
        l.key_stack.push(Yaml::BadValue);
        l.on_event(Event::MappingEnd, sym_span());
    } else {
        l.doc_stack.push((Yaml::Sequence(vec![int(x)]), aid));
        l.on_event(Event::SequenceEnd, sym_span());
    }
    assert!(l.doc_stack.len() == 1 && l.key_stack.is_empty(), "C07: collection end did not close exactly one collection");
    let inner = match &l.doc_stack[0].0 {
        Yaml::Sequence(v) => {
            assert!(v.len() == 1, "C07: finished collection not added to its parent exactly once");
            v[0].clone()
        }
        _ => {
            assert!(false, "C07: parent replaced");
            Yaml::BadValue
        }
    };
    match &inner {
        Yaml::Mapping(m) => assert!(inner_is_map && m.len() == 1 && m.get(&key(0)) == Some(&int(x)), "C07: finished mapping changed"),
        Yaml::Sequence(v) => assert!(!inner_is_map && v.len() == 1 && v[0] == int(x), "C07: finished sequence changed"),
        _ => assert!(false, "C07: finished collection has the wrong kind"),
    }
    if aid > 0 {
        assert!(l.anchor_map.get(&aid) == Some(&inner), "C07: anchored collection not recorded");
    }
    l.on_event(Event::DocumentEnd, sym_span());
    assert!(l.docs.len() == 1 && l.doc_stack.is_empty(), "C07: document end did not deliver exactly one document");
    assert!(matches!(&l.docs[0], Yaml::Sequence(v) if v.len() == 1), "C07: delivered document differs from the root node");
    kani::cover!(true, "must: compared");
    std::mem::forget(inner);
    std::mem::forget(l);
}

/// A key that is itself BadValue (alias to a node that is still open / tag mismatch) must still be
/// paired with the node that follows it.
#[kani::proof]
#[kani::unwind(4)]
#[kani::stub(<f64 as std::str::FromStr>::from_str, f64_from_str_stub)]
pub fn c07_badvalue_key_pairing() {
    let mut l: YamlLoader<Yaml> = YamlLoader::default();
    l.doc_stack.push((Yaml::Mapping(crate::Mapping::new()), 0));
    l.key_stack.push(Yaml::BadValue);
    // key: alias to an id with no completed node -> BadValue node
    l.on_event(Event::Alias(7), sym_span());
    let (ev, t, style, _aid) = sym_scalar(0);
    l.on_event(ev, sym_span());
    match &l.doc_stack[0].0 {
        Yaml::Mapping(m) => {
            assert!(m.len() == 1, "C07: a BadValue key is not paired with the node that follows it (pair dropped)");
            assert!(m.get(&Yaml::BadValue) == Some(&denoted(t, style)), "C07: a BadValue key is not paired with the node that follows it");
        }
        _ => assert!(false, "C07: parent replaced"),
    }
    std::mem::forget(l);
}

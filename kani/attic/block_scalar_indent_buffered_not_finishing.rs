/// Character source: `spaces` blanks, then up to 3 more characters, then end of input.
pub struct IndentGen {
    pub spaces: usize,
    pub tail: [u8; 3],
    pub tail_len: usize,
    pub pos: usize,
}
impl Iterator for IndentGen {
    type Item = char;
    fn next(&mut self) -> Option<char> {
        let p = self.pos;
        if p < self.spaces {
            self.pos += 1;
            Some(' ')
        } else if p - self.spaces < self.tail_len {
            self.pos += 1;
            Some(self.tail[p - self.spaces] as char)
        } else {
            None
        }
    }
}

/// C01/C10: skipping block-scalar indentation through the 16-slot BufferedInput never asks for more
/// look-ahead than the buffer holds and never peeks past what it looked ahead (arraydeque panics).
/// The indentation and the length of the run of spaces are harness parameters around the buffer size
/// (13..=17; symbolic loop bounds up to 20 did not finish); the following 0..=3 characters are symbolic.
fn block_scalar_indent_buffered(indent: usize, spaces: usize) {
    let mut tail = [0u8; 3];
    let alphabet: [u8; 4] = [b' ', b'\n', b'\r', b'a'];
    let mut i = 0;
    while i < 3 {
        let k: u8 = kani::any();
        kani::assume(k < 4);
        tail[i] = alphabet[k as usize];
        i += 1;
    }
    let tail_len: usize = kani::any();
    kani::assume(tail_len <= 3);
    if sym::playback() {
        eprintln!("VERIF-INPUT spaces={} indent={} tail={:?}", spaces, indent, &tail[..tail_len]);
    }
    let gen = IndentGen { spaces, tail, tail_len, pos: 0 };
    let mut sc = Scanner::new(crate::input::BufferedInput::new(gen));
    let mut breaks = String::with_capacity(8);
    sc.skip_block_scalar_indent(indent, &mut breaks);
    assert!(sc.mark.col() <= spaces + 3, "C12: column beyond the text");
    kani::cover!(tail_len == 3, "must: three following characters reached");
    std::mem::forget(breaks);
    std::mem::forget(sc);
}
macro_rules! indent_harness {
    ($name:ident, $indent:expr, $spaces:expr) => {
        #[kani::proof]
        #[kani::unwind(22)]
        pub fn $name() {
            block_scalar_indent_buffered($indent, $spaces);
        }
    };
}
indent_harness!(c01_block_scalar_indent_buffered_13, 13, 13);
indent_harness!(c01_block_scalar_indent_buffered_14, 14, 14);
indent_harness!(c01_block_scalar_indent_buffered_15, 15, 15);
indent_harness!(c01_block_scalar_indent_buffered_16, 16, 16);
indent_harness!(c01_block_scalar_indent_buffered_17, 17, 17);
indent_harness!(c01_block_scalar_indent_buffered_15_short, 15, 3);


// ------------------------------------------------------------------------------------------------
// C17/C15: the push interface on a concrete two-document token template (kinds concrete, anchor
// names symbolic): delivers exactly the events, in order, with the anchor ids the pull interface
// assigns (stream-global, increasing), with multi=true and with repeated multi=false calls.
// ------------------------------------------------------------------------------------------------

pub struct Recorder {
    pub kinds: [u8; 20],
    pub ids: [usize; 20],
    pub n: usize,
}
impl<'input> SpannedEventReceiver<'input> for Recorder {
    fn on_event(&mut self, ev: Event<'input>, _span: Span) {
        let (k, id) = match &ev {
            Event::Nothing => (0, 0),
            Event::StreamStart => (1, 0),
            Event::StreamEnd => (2, 0),
            Event::DocumentStart(_) => (3, 0),
            Event::DocumentEnd => (4, 0),
            Event::Alias(id) => (5, *id),
            Event::Scalar(_, _, a, _) => (6, *a),
            Event::SequenceStart(a, _) => (7, *a),
            Event::SequenceEnd => (8, 0),
            Event::MappingStart(a, _) => (9, *a),
            Event::MappingEnd => (10, 0),
        };
        if self.n < 20 {
            self.kinds[self.n] = k;
            self.ids[self.n] = id;
        }
        self.n += 1;
        std::mem::forget(ev);
    }
}

fn load_template<'a>() -> Parser<'a, StrInput<'a>> {
    // &x s --- [ &y s , *y ] <end>
    let kinds_t: [u8; 11] = [
        tk::STREAM_START, tk::ANCHOR, tk::SCALAR, tk::DOCUMENT_START, tk::FLOW_SEQUENCE_START, tk::ANCHOR, tk::SCALAR, tk::FLOW_ENTRY, tk::ALIAS,
        tk::FLOW_SEQUENCE_END, tk::STREAM_END,
    ];
    let mut k = [0u8; MAXTOK];
    let mut payload = [0u8; MAXTOK];
    let mut i = 0;
    while i < 11 {
        k[i] = kinds_t[i];
        i += 1;
    }
    let n1: u8 = kani::any();
    let n2: u8 = kani::any();
    kani::assume(n1 < 3 && n2 < 3);
    payload[1] = n1;
    payload[5] = n2;
    payload[8] = n2;
    if sym::playback() {
        eprintln!("VERIF-INPUT anchor_names=({}, {})", NAMES[n1 as usize], NAMES[n2 as usize]);
    }
    let mut p = Parser::new(StrInput::new(""));
    p.scanner.verif_inject = Some(Inject { kinds: k, payload, len: 11, pos: 0, mask: MASK_NO_TAGS });
    p
}

const WANT_KINDS: [u8; 12] = [1, 3, 6, 4, 3, 7, 6, 5, 8, 4, 2, 0];
const WANT_IDS: [usize; 12] = [0, 0, 1, 0, 0, 0, 2, 2, 0, 0, 0, 0];

fn check_recorded(r: &Recorder) {
    assert!(r.n == 11, "C17: the push interface delivered a different number of events than the stream has");
    let mut i = 0;
    while i < 11 {
        assert!(r.kinds[i] == WANT_KINDS[i], "C17: the push interface delivered a different event than the pull interface");
        assert!(r.ids[i] == WANT_IDS[i], "C17: the push interface numbers anchors differently from the pull interface");
        i += 1;
    }
}

#[kani::proof]
#[kani::unwind(14)]
pub fn c17_load_multi_delivers_the_stream() {
    let mut p = load_template();
    let mut rec = Recorder { kinds: [0; 20], ids: [0; 20], n: 0 };
    let r = p.load(&mut rec, true);
    assert!(r.is_ok(), "C17: load failed on a well-formed stream");
    check_recorded(&rec);
    kani::cover!(true, "must: compared");
    std::mem::forget(r);
    std::mem::forget(p);
}

#[kani::proof]
#[kani::unwind(14)]
pub fn c17_load_single_calls_concatenate() {
    let mut p = load_template();
    let mut rec = Recorder { kinds: [0; 20], ids: [0; 20], n: 0 };
    let r1 = p.load(&mut rec, false);
    assert!(r1.is_ok() && rec.n == 4, "C17: load(multi=false) did not deliver exactly one document");
    let r2 = p.load(&mut rec, false);
    assert!(r2.is_ok() && rec.n == 10, "C17: second load(multi=false) did not deliver exactly the second document");
    let r3 = p.load(&mut rec, false);
    assert!(r3.is_ok(), "C17: final load(multi=false) failed");
    check_recorded(&rec);
    kani::cover!(true, "must: compared");
    std::mem::forget((r1, r2, r3));
    std::mem::forget(p);
}

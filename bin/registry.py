"""Harness registry: which Kani harnesses decide which property, with their bounds, stubs and caps."""
import os, subprocess

DEFAULT_TIMEOUT = {"quick": 600, "thorough": 3600}
DEFAULT_MEM_GB = 40
MAX_JOBS = 6
KNOWN_EXCLUSION_FLAGS = []  # names of `pub const X: bool` switches in .work/gen/known.rs

MODULES = {
    "ext.c08": {"crate": "ext", "modpath": "c08_resolver", "sympath": "sym", "pbfile": "ext.rs"},
    # in-crate harness modules (child modules of the module they inspect, via the cfg(kani) hooks)
    "parser.scanner": {"crate": "parser", "modpath": "scanner::verif_harness", "sympath": "scanner::verif_harness::sym", "pbfile": "scanner.rs"},
    "parser.input_str": {"crate": "parser", "modpath": "input::str::verif_harness", "sympath": "input::str::verif_harness::sym", "pbfile": "input_str.rs"},
    "parser.input_buffered": {"crate": "parser", "modpath": "input::buffered::verif_harness", "sympath": "input::buffered::verif_harness::sym", "pbfile": "input_buffered.rs"},
    "saphyr.emitter": {"crate": "saphyr", "modpath": "emitter::verif_harness", "sympath": "emitter::verif_harness::sym", "pbfile": "emitter.rs"},
    "saphyr.encoding": {"crate": "saphyr", "modpath": "encoding::verif_harness", "sympath": "encoding::verif_harness::sym", "pbfile": "encoding.rs"},
    "saphyr.yaml": {"crate": "saphyr", "modpath": "yaml::verif_harness", "sympath": "yaml::verif_harness::sym", "pbfile": "yaml.rs"},
    "saphyr.yaml_owned": {"crate": "saphyr", "modpath": "yaml_owned::verif_harness", "sympath": "yaml_owned::verif_harness::sym", "pbfile": "yaml_owned.rs"},
    "saphyr.loader": {"crate": "saphyr", "modpath": "loader::verif_harness", "sympath": "loader::verif_harness::sym", "pbfile": "loader.rs"},
    # mode S: the parser crate regenerated from /repo with std HashMap -> association list in parser.rs
    "lm.parser": {"crate": "parser_lm", "modpath": "parser::verif_harness", "sympath": "parser::verif_harness::sym", "pbfile": "parser.rs"},
}

F64_STUB = "<f64 as FromStr>::from_str -> contract stub (std-documented grammar, nondeterministic non-NaN value / inf / nan by class)"
Q = ("quick", "thorough")
T = ("thorough",)


def H(name, mod, funcs, bound, tiers=Q, stubs=(), timeout=None, flags=(), **kw):
    h = {"name": name, "mod": mod, "crate": MODULES[mod]["crate"], "funcs": list(funcs), "bound": bound,
         "tiers": tiers, "stubs": list(stubs), "flags": list(flags)}
    if timeout:
        h["timeout"] = timeout
    h.update(kw)
    return h


PROPERTIES = {}

NOT_APPLICABLE = {
    "C03": "needs an oracle at the level 'text of a structured stream -> event tree' over inputs long enough to nest (>= 8-20 chars through "
           "scanner and parser together); measured: Kani/CBMC does not finish symbolic execution of the scanner+parser pipeline even for 3 symbolic "
           "or 4 concrete characters (DESIGN.md section 1), and no unit-level decomposition has a specification-level oracle. Not decided by another technique.",
    "C11": "stack exhaustion is a property of the machine-level execution: CBMC/Kani has no stack-size model, recursion depth 10^5 is beyond any "
           "unwinding bound and recursive drop glue cannot be instrumented; a bounded-depth proxy would alarm on a correct depth-limited implementation. "
           "The only solver-decidable fragment (flow-level counter never wraps) is checked under C01.",
    "C13": "end-to-end statement over whole JSON texts (>= 10 chars, whole scanner+parser+loader pipeline): same reach problem as C03; its ingredients "
           "(escapes, number/literal resolution) are decided under C04/C08 but that does not decide C13.",
}

RES = ["saphyr::Scalar::parse_from_cow", "saphyr::loader::parse_f64", "core::num::<impl i64>::from_str_radix",
       "core::str::<impl str>::strip_prefix"]
RES_T = ["saphyr::Scalar::parse_from_cow_and_metadata"] + RES
LIT = "literal alphabet = 0-9 + - . e E x o _ ~ a-f A-F n u l t r s i y N U L T R S I Y"
PROPERTIES["C08"] = {
    "level": "model_checking",
    "level_text": "Bounded model checking of the real resolver (Scalar::parse_from_cow, parse_from_cow_and_metadata, parse_f64, ScalarOwned::*) "
                  "against an independent core-schema recogniser (explicit DFAs + i128 accumulation): the SAT solver decides soundness and the "
                  "listed completeness classes for EVERY text within the bound (all texts up to 4 / 6 chars over the literal alphabet, 64-bit "
                  "boundary templates, 5 styles x 8 tag choices), not a sample. Right level because the input space is small-alphabet text and "
                  "the interesting inputs (sign after prefix, 2^63 boundaries, word spellings) are rare.",
    "level_note": "f64::from_str is replaced by a contract stub implementing the std-documented grammar (numeric value trusted to std); "
                  "texts beyond the bound are outside the claim; Kani/CBMC/CaDiCaL and rustc are trusted.",
    "harnesses": [
        H("c08_untagged_4", "ext.c08", RES, "every text of length 0..4 over the " + LIT, stubs=[F64_STUB]),
        H("c08_untagged_5", "ext.c08", RES, "every text of length 0..5 over the " + LIT, tiers=T, stubs=[F64_STUB]),
        H("c08_untagged_6", "ext.c08", RES, "every text of length 0..6 over the " + LIT, tiers=T, stubs=[F64_STUB]),
        H("c08_boundary_dec_pos", "ext.c08", RES, "'922337203685477580' + 1..2 symbolic literal-alphabet chars", stubs=[F64_STUB]),
        H("c08_boundary_dec_plus", "ext.c08", RES, "'+922337203685477580' + 1..2 symbolic chars", stubs=[F64_STUB]),
        H("c08_boundary_dec_neg", "ext.c08", RES, "'-922337203685477580' + 1..2 symbolic chars", stubs=[F64_STUB]),
        H("c08_boundary_hex", "ext.c08", RES, "'0x' + 1 symbolic char + 14 symbolic-choice {0,f} digits + 1..2 symbolic chars", stubs=[F64_STUB]),
        H("c08_boundary_oct", "ext.c08", RES, "'0o' + 1 symbolic char + 19 sevens/zeros + 1..2 symbolic chars", stubs=[F64_STUB]),
        H("c08_tagged3_none", "ext.c08", RES_T, "5 styles x no tag x texts 0..3", stubs=[F64_STUB]),
        H("c08_tagged3_int", "ext.c08", RES_T, "5 styles x !!int x texts 0..3", stubs=[F64_STUB]),
        H("c08_tagged3_float", "ext.c08", RES_T, "5 styles x !!float x texts 0..3", stubs=[F64_STUB]),
        H("c08_tagged3_bool", "ext.c08", RES_T, "5 styles x !!bool x texts 0..5", stubs=[F64_STUB]),
        H("c08_tagged3_null", "ext.c08", RES_T, "5 styles x !!null x texts 0..4", stubs=[F64_STUB]),
        H("c08_tagged3_str", "ext.c08", RES_T, "5 styles x !!str x texts 0..3", stubs=[F64_STUB]),
        H("c08_tagged3_coreunk", "ext.c08", RES_T, "5 styles x core handle with unknown suffix x texts 0..3", stubs=[F64_STUB]),
        H("c08_tagged3_foreign", "ext.c08", RES_T, "5 styles x foreign handle with suffix int x texts 0..3", stubs=[F64_STUB]),
        H("c08_tagged5_int", "ext.c08", RES_T, "5 styles x !!int x texts 0..5", tiers=T, stubs=[F64_STUB]),
        H("c08_tagged5_float", "ext.c08", RES_T, "5 styles x !!float x texts 0..5", tiers=T, stubs=[F64_STUB]),
        H("c08_owned_3", "ext.c08", ["saphyr::ScalarOwned::parse_from_cow", "saphyr::ScalarOwned::parse_from_cow_and_metadata",
                                     "saphyr::Scalar::into_owned", "saphyr::ScalarOwned::as_scalar"] + RES,
          "texts 0..3; owned vs borrowed, untagged and !!int", stubs=[F64_STUB]),
    ],
    "assumptions": [
        F64_STUB + "; the numeric value std computes for an accepted float literal is trusted",
        "texts longer than the per-harness bound and characters outside the literal alphabet are outside the claim "
        "(any other character makes every std parser reject, so the String branch is the only one reachable - argued, not solved)",
        "Kani models the dev profile (overflow checks on); concrete counterexamples are replayed in dev and release",
    ],
    "outside": "texts longer than 6 chars except the 64-bit boundary templates; non-literal-alphabet characters",
}


STATES0 = ["stream_start", "implicit_document_start", "document_start", "document_content", "document_end"]
STATES_D = ["block_node", "block_sequence_first_entry", "block_sequence_entry", "indentless_sequence_entry",
            "block_mapping_first_key", "block_mapping_key", "block_mapping_value", "flow_sequence_first_entry",
            "flow_sequence_entry", "flow_sequence_entry_mapping_key", "flow_sequence_entry_mapping_value",
            "flow_sequence_entry_mapping_end", "flow_mapping_first_key", "flow_mapping_key", "flow_mapping_value",
            "flow_mapping_empty_value", "block_node_tags"]
STATES = STATES0 + [x + "_d0" for x in STATES_D] + [x + "_d2" for x in STATES_D]
PARSER_FUNCS = ["saphyr_parser::parser::Parser::parse", "Parser::state_machine", "Parser::stream_start", "Parser::document_start",
                "Parser::explicit_document_start", "Parser::parser_process_directives", "Parser::document_content", "Parser::document_end",
                "Parser::parse_node", "Parser::register_anchor", "Parser::resolve_tag", "Parser::block_mapping_key", "Parser::block_mapping_value",
                "Parser::block_sequence_entry", "Parser::indentless_sequence_entry", "Parser::flow_sequence_entry",
                "Parser::flow_sequence_entry_mapping_key", "Parser::flow_sequence_entry_mapping_value", "Parser::flow_sequence_entry_mapping_end",
                "Parser::flow_mapping_key", "Parser::flow_mapping_value", "Parser::peek_token", "Parser::scan_next_token", "Parser::fetch_token",
                "Parser::pop_state", "Parser::push_state", "Scanner::next (injected tokens)"]
LM_STUB = "std::collections::HashMap in parser.rs -> association-list model (kani/shim/verif_map.rs), validated by running the repository's parser test-suite (incl. 402 yaml-test-suite cases) against the substituted build on every run"
INJ = "scanner replaced by token injection hook (Scanner::next_token hands out a symbolic token sequence, then a scanner error); every token sequence over-approximates what the scanner can emit"
PROPERTIES["C02"] = {
    "level": "model_checking",
    "level_text": "Inductive step of the event-grammar invariant, decided by bounded model checking of the real parser state machine: for each of the 21 "
                  "parser states, ONE call of Parser::parse from an ARBITRARY well-formed configuration (state, state stack = DocumentEnd + 0..2 arbitrary "
                  "continuation entries, arbitrary anchor table/counter) over ALL next-token sequences of up to 5 tokens (21 token kinds) is shown to emit "
                  "only an event the grammar monitor accepts, to leave a well-formed configuration equal to the monitor's successor, to hand out fresh "
                  "increasing anchor ids and alias ids that were handed out before. Together with the initial configuration this gives the sentence "
                  "property for token streams of ANY length (induction argued in DESIGN.md; each step solver-decided).",
    "level_note": "Scanner side (that FlowMappingStart/End and BlockEnd tokens are paired) is not decided; parser is checked over arbitrary token streams, "
                  "which over-approximates it. " + LM_STUB + ". Stack entries below the top three are untouched by a step (frame argument, not solved).",
    "prepare": ["gen_parser"],
    "harnesses": [H("c02_step_" + st, "lm.parser", PARSER_FUNCS, "state %s x state stack = DocumentEnd + {0, 2} arbitrary continuation entries (10 kinds) x all token sequences <= 5 (21 kinds, payload pool 7) x anchor table over 3 names" % st,
                    stubs=[LM_STUB, INJ], timeout={"quick": 900, "thorough": 1800}) for st in STATES],
    "assumptions": [LM_STUB, INJ, "anchor/alias names and tag handles drawn from a fixed pool of 3/7 strings",
                    "induction over steps and the frame rule for deep stacks are argued, not solved"],
    "outside": "token-level pairing guarantees of the scanner; push interface (load) recursion; configurations are bounded to 3 visible stack entries",
}

UTF8 = "every valid UTF-8 buffer of <= %d characters and <= 8 bytes (each character: any scalar value incl. NUL, 1-4 bytes), after lookahead(4)"
C10_PURE = ["look_ch", "next_char_is", "nth_char_is", "next_2_are", "next_3_are", "next_is_document_indicator", "next_is_document_start",
            "next_is_document_end", "next_can_be_plain_scalar", "char_classes"]
C10_BULK = ["skip_ws_to_eol", "skip_while_non_breakz", "skip_while_blank", "fetch_while_is_alpha"]
PROPERTIES["C10"] = {
    "level": "model_checking",
    "level_text": "Differential bounded model checking of the two implementations of the input contract: every method that StrInput overrides is run "
                  "against the trait's default body (the code BufferedInput and custom inputs execute, here on top of a wrapper that forwards only the "
                  "required methods) on EVERY valid UTF-8 buffer of up to 4-5 characters / 8 bytes incl. multi-byte characters and NUL; results, "
                  "reported counts and the remaining input must be equal. The scanner observes its input only through these methods, so method-level "
                  "equivalence is what makes events, spans and errors identical across back-ends (composition argued).",
    "level_note": "BufferedInput's own required methods (ring buffer over a char iterator) and buffer-size dependent scanner paths are outside this "
                  "claim; whole-document event equality is argued by composition, not solved.",
    "harnesses": [H("c10_" + m, "parser.input_str", ["StrInput::" + m, "Input::" + m + " (default body)"], UTF8 % 4) for m in C10_PURE]
                 + [H("c10_" + m, "parser.input_str", ["StrInput::" + m, "Input::" + m + " (default body)"], UTF8 % 5) for m in C10_BULK],
    "assumptions": ["next_2_are/next_3_are are never asked about NUL (the defaults cannot tell NUL padding from a NUL character; all call sites pass literals)",
                    "next_can_be_plain_scalar is called only when the next character is not blank/break/end (checked call-site precondition, documented)",
                    "skip_ws_to_eol is called with SkipTabs::Yes or SkipTabs::No only (StrInput asserts this)"],
    "outside": "buffers longer than 8 bytes; BufferedInput internals; scanner paths that depend on buffer capacity",
}


def run_prepare(step, root, work, log):
    import time
    t0 = time.time()
    if step == "gen_parser":
        r = subprocess.run(["python3", os.path.join(root, "kani/shim/gen_parser.py")], capture_output=True, text=True)
        if r.returncode != 0:
            return False, {"step": step, "error": r.stdout + r.stderr}
        env = dict(os.environ, CARGO_NET_OFFLINE="true", CARGO_TARGET_DIR=os.path.join(work, "target", "parser_lm", "native"))
        t = subprocess.run(["cargo", "test", "--offline"], cwd=os.path.join(work, "gen/parser_lm"), capture_output=True, text=True, env=env)
        out = t.stdout + t.stderr
        import re
        passed = sum(int(x) for x in re.findall(r"(\d+) passed", out))
        failed = sum(int(x) for x in re.findall(r"(\d+) failed", out))
        ok = t.returncode == 0 and failed == 0 and passed > 400
        log("  prepare gen_parser: substituted build passes %d repository tests, %d failed (%.0fs)" % (passed, failed, time.time() - t0))
        return ok, {"step": step, "translation_validation": {"tests_passed_on_substituted_build": passed, "failed": failed}, "wall_s": round(time.time() - t0, 1)}
    return True, {"step": step}

"""Harness registry: which Kani harnesses decide which property, with their bounds, stubs and caps."""
import os, subprocess

DEFAULT_TIMEOUT = {"quick": 1200, "thorough": 3600}
DEFAULT_MEM_GB = 40
MAX_JOBS = 10
MAX_JOBS_THOROUGH = 5  # the largest step harnesses need ~10 GB each
KNOWN_EXCLUSION_FLAGS = []
# expected wall seconds of the slow harnesses (scheduling order only)
WEIGHT = {"c02_step_flow_mapping_key_d2": 600, "c02_step_flow_mapping_first_key_d2": 600, "c02_step_flow_mapping_key_d0": 600, "c02_step_flow_mapping_first_key_d0": 600,
          "c04_escape_sequences_short": 550, "c04_escape_sequences": 900, "c09_unquoted_strings_resolve_as_strings_4": 400,
          "c09_unquoted_strings_resolve_as_strings_3": 390, "c09_escape_str_roundtrip_1": 300, "c08_owned_3": 350, "c10_skip_ws_to_eol": 360, "c12_skip_to_next_token_block_2": 330,
          "c18_decode_loop_terminates_2": 280, "c02_step_block_node_tags_d2": 330, "c01_strinput_required_methods_no_panic": 260}  # names of `pub const X: bool` switches in .work/gen/known.rs

MODULES = {
    "ext.c08": {"crate": "ext", "modpath": "c08_resolver", "sympath": "sym", "pbfile": "ext.rs"},
    "ext.c19": {"crate": "ext", "modpath": "c19_nodes", "sympath": "sym", "pbfile": "ext.rs"},
    # in-crate harness modules (child modules of the module they inspect, via the cfg(kani) hooks)
    "parser.scanner": {"crate": "parser", "modpath": "scanner::verif_harness", "sympath": "scanner::verif_harness::sym", "pbfile": "scanner.rs"},
    "parser.input_str": {"crate": "parser", "modpath": "input::str::verif_harness", "sympath": "input::str::verif_harness::sym", "pbfile": "input_str.rs"},
    "parser.input_buffered": {"crate": "parser", "modpath": "input::buffered::verif_harness", "sympath": "input::buffered::verif_harness::sym", "pbfile": "input_buffered.rs"},
    "saphyr.emitter": {"crate": "saphyr", "modpath": "emitter::verif_harness", "sympath": "emitter::verif_harness::sym", "pbfile": "emitter.rs"},
    "saphyr.encoding": {"crate": "saphyr", "modpath": "encoding::verif_harness", "sympath": "encoding::verif_harness::sym", "pbfile": "encoding.rs"},
    "saphyr.yaml": {"crate": "saphyr", "modpath": "yaml::verif_harness", "sympath": "yaml::verif_harness::sym", "pbfile": "yaml.rs"},
    "saphyr.yaml_owned": {"crate": "saphyr", "modpath": "yaml_owned::verif_harness", "sympath": "yaml_owned::verif_harness::sym", "pbfile": "yaml_owned.rs"},
    "saphyr.loader": {"crate": "saphyr", "modpath": "loader::verif_harness", "sympath": "loader::verif_harness::sym", "pbfile": "loader.rs"},
    # mode S: the parser crate regenerated from /repo with std HashMap -> association list in parser.rs
    "lm.parser": {"crate": "parser_lm", "modpath": "parser::verif_harness", "sympath": "parser::verif_harness::sym", "pbfile": "parser.rs"},
}

F64_STUB = "<f64 as FromStr>::from_str -> contract stub (std-documented grammar, nondeterministic non-NaN value / inf / nan by class)"
Q = ("quick", "thorough")
T = ("thorough",)


def H(name, mod, funcs, bound, tiers=Q, stubs=(), timeout=None, flags=(), **kw):
    h = {"name": name, "mod": mod, "crate": MODULES[mod]["crate"], "funcs": list(funcs), "bound": bound,
         "tiers": tiers, "stubs": list(stubs), "flags": list(flags)}
    if mod == "parser.input_str":
        h["native_probe"] = "c10_native_probe"
    if timeout:
        h["timeout"] = timeout
    h.update(kw)
    return h


PROPERTIES = {}

NOT_APPLICABLE = {
    "C03": "needs an oracle at the level 'text of a structured stream -> event tree' over inputs long enough to nest (>= 8-20 chars through "
           "scanner and parser together); measured: Kani/CBMC does not finish symbolic execution of the scanner+parser pipeline even for 3 symbolic "
           "or 4 concrete characters (DESIGN.md section 1), and no unit-level decomposition has a specification-level oracle. Not decided by another technique.",
    "C05": "scan_block_scalar and its helpers build heap strings (String/Vec pointer value-sets dominate CBMC's symbolic execution): neither the real function "
           "under Kani nor a container-shim build of the scanner finishes for 4 symbolic characters (DESIGN.md section 1); no deciding harness could be built, "
           "and no other technique is substituted. Only panic-freedom of the indentation skipping is checked, under C01.",
    "C07": "the loader's on_event inserts into hashlink::LinkedHashMap (hashbrown + foldhash): 7 concrete events did not finish at 860 s / 18 GB under Kani and "
           "no loader harness could be made to terminate; the scalar-resolution half of the statement is decided under C08, which does not decide C07.",
    "C11": "stack exhaustion is a property of the machine-level execution: CBMC/Kani has no stack-size model, recursion depth 10^5 is beyond any "
           "unwinding bound and recursive drop glue cannot be instrumented; a bounded-depth proxy would alarm on a correct depth-limited implementation. "
           "The only solver-decidable fragment (flow-level counter never wraps) is checked under C01.",
    "C13": "end-to-end statement over whole JSON texts (>= 10 chars, whole scanner+parser+loader pipeline): same reach problem as C03; its ingredients "
           "(escapes, number/literal resolution) are decided under C04/C08 but that does not decide C13.",
}

RES = ["saphyr::Scalar::parse_from_cow", "saphyr::loader::parse_f64", "core::num::<impl i64>::from_str_radix",
       "core::str::<impl str>::strip_prefix"]
RES_T = ["saphyr::Scalar::parse_from_cow_and_metadata"] + RES
LIT = "literal alphabet = 0-9 + - . e E x o _ ~ a-f A-F n u l t r s i y N U L T R S I Y"
PROPERTIES["C08"] = {
    "level": "model_checking",
    "level_text": "Bounded model checking of the real resolver (Scalar::parse_from_cow, parse_from_cow_and_metadata, parse_f64, ScalarOwned::*) "
                  "against an independent core-schema recogniser (explicit DFAs + i128 accumulation): the SAT solver decides soundness and the "
                  "listed completeness classes for EVERY text within the bound (all texts up to 4 / 6 chars over the literal alphabet, 64-bit "
                  "boundary templates, 5 styles x 8 tag choices), not a sample. Right level because the input space is small-alphabet text and "
                  "the interesting inputs (sign after prefix, 2^63 boundaries, word spellings) are rare.",
    "level_note": "f64::from_str is replaced by a contract stub implementing the std-documented grammar (numeric value trusted to std); "
                  "texts beyond the bound are outside the claim; Kani/CBMC/CaDiCaL and rustc are trusted.",
    "harnesses": [
        H("c08_untagged_4", "ext.c08", RES, "every text of length 0..4 over the " + LIT, stubs=[F64_STUB]),
        H("c08_untagged_5", "ext.c08", RES, "every text of length 0..5 over the " + LIT, tiers=T, stubs=[F64_STUB]),
        H("c08_boundary_dec_pos", "ext.c08", RES, "'922337203685477580' + 1..2 symbolic literal-alphabet chars", stubs=[F64_STUB]),
        H("c08_boundary_dec_plus", "ext.c08", RES, "'+922337203685477580' + 1..2 symbolic chars", stubs=[F64_STUB]),
        H("c08_boundary_dec_neg", "ext.c08", RES, "'-922337203685477580' + 1..2 symbolic chars", stubs=[F64_STUB]),
        H("c08_boundary_hex", "ext.c08", RES, "'0x' + 1 symbolic char + 14 symbolic-choice {0,f} digits + 1..2 symbolic chars", stubs=[F64_STUB]),
        H("c08_boundary_oct", "ext.c08", RES, "'0o' + 1 symbolic char + 19 sevens/zeros + 1..2 symbolic chars", stubs=[F64_STUB]),
        H("c08_tagged3_none", "ext.c08", RES_T, "5 styles x no tag x texts 0..3", stubs=[F64_STUB]),
        H("c08_tagged3_int", "ext.c08", RES_T, "5 styles x !!int x texts 0..3", stubs=[F64_STUB]),
        H("c08_tagged3_float", "ext.c08", RES_T, "5 styles x !!float x texts 0..3", stubs=[F64_STUB]),
        H("c08_tagged3_bool", "ext.c08", RES_T, "5 styles x !!bool x texts 0..5", stubs=[F64_STUB]),
        H("c08_tagged3_null", "ext.c08", RES_T, "5 styles x !!null x texts 0..4", stubs=[F64_STUB]),
        H("c08_tagged3_str", "ext.c08", RES_T, "5 styles x !!str x texts 0..3", stubs=[F64_STUB]),
        H("c08_tagged3_coreunk", "ext.c08", RES_T, "5 styles x core handle with unknown suffix x texts 0..3", stubs=[F64_STUB]),
        H("c08_tagged3_foreign", "ext.c08", RES_T, "5 styles x foreign handle with suffix int x texts 0..3", stubs=[F64_STUB]),
        H("c08_tagged5_int", "ext.c08", RES_T, "5 styles x !!int x texts 0..5", tiers=T, stubs=[F64_STUB]),
        H("c08_tagged5_float", "ext.c08", RES_T, "5 styles x !!float x texts 0..5", tiers=T, stubs=[F64_STUB]),
        H("c08_owned_3", "ext.c08", ["saphyr::ScalarOwned::parse_from_cow", "saphyr::ScalarOwned::parse_from_cow_and_metadata",
                                     "saphyr::Scalar::into_owned", "saphyr::ScalarOwned::as_scalar"] + RES,
          "texts 0..3; owned vs borrowed, untagged and !!int", stubs=[F64_STUB]),
    ],
    "assumptions": [
        F64_STUB + "; the numeric value std computes for an accepted float literal is trusted",
        "texts longer than the per-harness bound and characters outside the literal alphabet are outside the claim "
        "(any other character makes every std parser reject, so the String branch is the only one reachable - argued, not solved)",
        "Kani models the dev profile (overflow checks on); concrete counterexamples are replayed in dev and release",
    ],
    "outside": "texts longer than 6 chars except the 64-bit boundary templates; non-literal-alphabet characters",
}


STATES0 = ["stream_start", "document_content", "document_end"]
STATES_D = ["block_node", "block_sequence_first_entry", "block_sequence_entry", "indentless_sequence_entry",
            "block_mapping_first_key", "block_mapping_key", "block_mapping_value", "flow_sequence_first_entry",
            "flow_sequence_entry", "flow_sequence_entry_mapping_key", "flow_sequence_entry_mapping_value",
            "flow_sequence_entry_mapping_end", "flow_mapping_first_key", "flow_mapping_key", "flow_mapping_value",
            "flow_mapping_empty_value", "block_node_tags"]
STATES = STATES0 + [x + "_d0" for x in STATES_D] + [x + "_d2" for x in STATES_D]
PARSER_FUNCS = ["saphyr_parser::parser::Parser::parse", "Parser::state_machine", "Parser::stream_start", "Parser::document_start",
                "Parser::explicit_document_start", "Parser::parser_process_directives", "Parser::document_content", "Parser::document_end",
                "Parser::parse_node", "Parser::register_anchor", "Parser::resolve_tag", "Parser::block_mapping_key", "Parser::block_mapping_value",
                "Parser::block_sequence_entry", "Parser::indentless_sequence_entry", "Parser::flow_sequence_entry",
                "Parser::flow_sequence_entry_mapping_key", "Parser::flow_sequence_entry_mapping_value", "Parser::flow_sequence_entry_mapping_end",
                "Parser::flow_mapping_key", "Parser::flow_mapping_value", "Parser::peek_token", "Parser::scan_next_token", "Parser::fetch_token",
                "Parser::pop_state", "Parser::push_state", "Scanner::next (injected tokens)"]
LM_STUB = "std::collections::HashMap in parser.rs -> association-list model (kani/shim/verif_map.rs), validated by running the repository's parser test-suite (incl. 402 yaml-test-suite cases) against the substituted build on every run"
INJ = "scanner replaced by token injection hook (Scanner::next_token hands out a symbolic token sequence, then a scanner error); every token sequence over-approximates what the scanner can emit"
PROPERTIES["C02"] = {
    "level": "model_checking",
    "level_text": "Inductive step of the event-grammar invariant, decided by bounded model checking of the real parser state machine: for each of the 21 "
                  "parser states, ONE call of Parser::parse from an ARBITRARY well-formed configuration (state, state stack = DocumentEnd + 0..2 arbitrary "
                  "continuation entries, arbitrary anchor table/counter) over ALL next-token sequences of up to 5 tokens (21 token kinds) is shown to emit "
                  "only an event the grammar monitor accepts, to leave a well-formed configuration equal to the monitor's successor, to hand out fresh "
                  "increasing anchor ids and alias ids that were handed out before. Together with the initial configuration this gives the sentence "
                  "property for token streams of ANY length (induction argued in DESIGN.md; each step solver-decided).",
    "level_note": "Scanner side (that FlowMappingStart/End and BlockEnd tokens are paired) is not decided; parser is checked over arbitrary token streams, "
                  "which over-approximates it. " + LM_STUB + ". Stack entries below the top three are untouched by a step (frame argument, not solved).",
    "prepare": ["gen_parser"],
    "harnesses": [H("c02_step_" + st, "lm.parser", PARSER_FUNCS, "state %s x state stack = DocumentEnd + {0, 2} arbitrary continuation entries (10 kinds) x all token sequences <= 5 (21 kinds, payload pool 7) x anchor table over 3 names" % st,
                    stubs=[LM_STUB, INJ], timeout={"quick": 900, "thorough": 1800}) for st in STATES],
    "assumptions": [LM_STUB, INJ, "anchor/alias names and tag handles drawn from a fixed pool of 3/7 strings",
                    "induction over steps and the frame rule for deep stacks are argued, not solved"],
    "outside": "token-level pairing guarantees of the scanner; push interface (load) recursion; configurations are bounded to 3 visible stack entries",
}

UTF8 = "every valid UTF-8 buffer of <= %d characters and <= 8 bytes (each character: any scalar value incl. NUL, 1-4 bytes), after lookahead(4)"
C10_PURE = ["look_ch", "next_char_is", "nth_char_is", "next_2_are", "next_3_are", "next_is_document_indicator", "next_is_document_start",
            "next_is_document_end", "next_can_be_plain_scalar", "char_classes"]
C10_BULK = ["skip_ws_to_eol", "skip_while_non_breakz", "skip_while_blank", "fetch_while_is_alpha"]
PROPERTIES["C10"] = {
    "level": "model_checking",
    "level_text": "Differential bounded model checking of the two implementations of the input contract: every method that StrInput overrides is run "
                  "against the trait's default body (the code BufferedInput and custom inputs execute, here on top of a wrapper that forwards only the "
                  "required methods) on EVERY valid UTF-8 buffer of up to 4-5 characters / 8 bytes incl. multi-byte characters and NUL; results, "
                  "reported counts and the remaining input must be equal. The scanner observes its input only through these methods, so method-level "
                  "equivalence is what makes events, spans and errors identical across back-ends (composition argued).",
    "level_note": "BufferedInput's own required methods (ring buffer over a char iterator) and buffer-size dependent scanner paths are outside this "
                  "claim; whole-document event equality is argued by composition, not solved.",
    "harnesses": [H("c10_" + m, "parser.input_str", ["StrInput::" + m, "Input::" + m + " (default body)"], UTF8 % 4) for m in C10_PURE]
                 + [H("c10_" + m, "parser.input_str", ["StrInput::" + m, "Input::" + m + " (default body)"], UTF8 % (2 if m == "skip_ws_to_eol" else 5)) for m in C10_BULK]
                 ,
    "assumptions": ["next_2_are/next_3_are are never asked about NUL (the defaults cannot tell NUL padding from a NUL character; all call sites pass literals)",
                    "next_can_be_plain_scalar is called only when the next character is not blank/break/end (checked call-site precondition, documented)",
                    "skip_ws_to_eol is called with SkipTabs::Yes or SkipTabs::No only (StrInput asserts this)"],
    "outside": "buffers longer than 8 bytes; BufferedInput internals; scanner paths that depend on buffer capacity",
}

WSA = "alphabet {sp, tab, LF, CR, '#', 'a', ':'}"
POS_FUNCS = ["Scanner::skip_blank", "Scanner::skip_non_blank", "Scanner::skip_nl", "Scanner::skip_linebreak", "Scanner::skip_break", "Scanner::read_break",
             "Scanner::skip_to_next_token", "Scanner::skip_yaml_whitespace", "Scanner::skip_ws_to_eol", "StrInput::skip_ws_to_eol", "StrInput::skip_while_non_breakz"]
SCAN_UNIT_HARNESSES = {
    "c12_skip_linebreak": "texts of 0..3 chars over " + WSA + ", arbitrary start mark",
    "c12_skip_break_read_break": "texts of 1..3 chars starting with a break, arbitrary start mark, skip_break and read_break",
    "c12_skip_to_next_token_top_2": "texts 0..2 over " + WSA + ", top-level context, leading_whitespace arbitrary",
    "c12_skip_to_next_token_block_2": "texts 0..2 over " + WSA + ", indented block context (indent 2)",
    "c12_skip_to_next_token_flow_2": "texts 0..2 over " + WSA + ", flow context",
    "c12_skip_yaml_whitespace_top_2": "texts 0..2 over " + WSA + ", top-level context",
}
SCAN_UNIT_T = {
    "c12_skip_to_next_token_top_3": "texts 0..3 over " + WSA + ", top-level context, leading_whitespace arbitrary",
    "c12_skip_to_next_token_block_3": "texts 0..3 over " + WSA + ", indented block context (indent 2)",
    "c12_skip_to_next_token_flow_3": "texts 0..3 over " + WSA + ", flow context",
    "c12_skip_yaml_whitespace_top_3": "texts 0..3 over " + WSA + ", top-level context",
}
PROPERTIES["C12"] = {
    "level": "model_checking",
    "level_text": "Bounded model checking of the position bookkeeping of the real scanner units against reference position arithmetic (count characters "
                  "and line breaks of the consumed text; CR LF = one break): for every text within the bound and an arbitrary start mark, the mark after "
                  "each helper equals the reference position of exactly the consumed input; counts returned by StrInput bulk operations are character "
                  "(not byte) counts on every valid UTF-8 buffer; every event span produced by one parser step starts no later than it ends.",
    "level_note": "Decided per unit (position helpers, whitespace/comment skipping, escape decoding, StrInput bulk counts, parser step spans); the "
                  "scalar-scanning functions (plain/quoted/block scalars, tags, anchors, directives) are outside the claim - they build heap strings and "
                  "did not finish under Kani (DESIGN.md section 1). Whole-document statement follows only by composition (argued).",
    "harnesses": [H(k, "parser.scanner", POS_FUNCS, v) for k, v in SCAN_UNIT_HARNESSES.items()]
                 + [H(k, "parser.scanner", POS_FUNCS, v, tiers=T, timeout={"thorough": 3000}) for k, v in SCAN_UNIT_T.items()]
                 + [

                    H("c10_skip_ws_to_eol", "parser.input_str", ["StrInput::skip_ws_to_eol"], UTF8 % 2 + " (count is a character count)"),
                    H("c10_skip_while_non_breakz", "parser.input_str", ["StrInput::skip_while_non_breakz"], UTF8 % 5 + " (count is a character count)"),
                    H("c10_fetch_while_is_alpha", "parser.input_str", ["StrInput::fetch_while_is_alpha"], UTF8 % 4 + " (count is a character count)")],
    "assumptions": ["ASCII texts for scanner units (multi-byte counts are covered at the StrInput level)", "contexts are constructed by setting scanner fields (top level / indent 2 / flow level 1)"],
    "outside": "scan_plain_scalar, scan_flow_scalar, scan_block_scalar, scan_tag*, scan_anchor, scan_directive*, fetch_* token spans; error Display; with_span of marked nodes",
}
PROPERTIES["C14"] = {
    "level": "model_checking",
    "level_text": "Bounded model checking of the break-handling units: skip_linebreak/skip_break/read_break consume LF, CR LF and lone CR as exactly one "
                  "break (one line, column 0, reported as a line feed) for every following text within the bound; an escaped line break in a double-quoted "
                  "scalar consumes the backslash and exactly one break of any style; differential check of the whitespace units: texts LF LF in three contexts (quick) and 2-character texts with "
                  "one line feed at a fixed position and the other character symbolic (thorough, 5 combinations): the unit ends with the same outcome at "
                  "the same line/column before the same character and with the same simple-key state for LF vs CR LF / CR.",
    "level_note": "Scalar-scanning functions (break normalisation inside plain/quoted/block scalars) are outside the claim (not finishing under Kani); "
                  "whole-document statement follows only by composition (argued).",
    "harnesses": [H("c12_skip_linebreak", "parser.scanner", POS_FUNCS, SCAN_UNIT_HARNESSES["c12_skip_linebreak"]),
                  H("c12_skip_break_read_break", "parser.scanner", POS_FUNCS, SCAN_UNIT_HARNESSES["c12_skip_break_read_break"]),
                  ] + [H("c14_escaped_line_break_" + st, "parser.scanner", ["Scanner::consume_flow_scalar_non_whitespace_chars", "Scanner::skip_linebreak", "Scanner::skip_non_blank"], "backslash + " + st.upper() + " + one of {b, sp, quote, LF}, arbitrary start mark") for st in ["lf", "crlf", "cr"]]
                 + [H("c14_" + k, "parser.scanner", POS_FUNCS, "text LF LF in context " + k.split("_")[-1] + ", LF -> " + ("CR LF" if "crlf" in k else "CR"))
                    for k in ["next_token_lf_lf_crlf_top", "next_token_lf_lf_cr_flow", "next_token_lf_lf_cr_block", "yaml_ws_lf_lf_cr_top", "yaml_ws_lf_lf_crlf_flow"]]
                 + [H("c14_" + k, "parser.scanner", POS_FUNCS, "text of 2 characters, one line feed at a fixed position (" + k + "), the other character symbolic over {sp, tab, '#', 'a', ':'}, LF -> " + ("CR LF" if "crlf" in k else "CR"),
                      tiers=T, timeout={"thorough": 3400})
                    for k in ["next_token_lf_o_crlf_top", "yaml_ws_lf_o_crlf_top", "yaml_ws_lf_o_cr_top", "yaml_ws_o_lf_crlf_flow", "yaml_ws_o_lf_cr_top"]],
    "assumptions": ["units are run from constructed contexts (top level / indent 2 / flow level 1)"],
    "outside": "break normalisation inside scalars (scan_flow_scalar, scan_plain_scalar, scan_block_scalar), directives, whole documents",
}
PROPERTIES["C04"] = {
    "level": "model_checking",
    "level_text": "Bounded model checking of the real escape decoder (Scanner::resolve_flow_scalar_escape_sequence) against the YAML 1.2 escape table and "
                  "hexadecimal arithmetic: for a backslash followed by ANY ASCII character and any 0..8 following printable characters, the decoded code "
                  "point is the table's / the arithmetic value, Err exactly for unknown escapes, truncated or non-hex digits and non-scalar values; and the "
                  "StrInput fast path of next_can_be_plain_scalar agrees with the default on every buffer.",
    "level_note": "Only the escape table / hex decoding and the plain-scalar termination test are decided. Folding, quote doubling and plain-scalar "
                  "scanning (scan_flow_scalar, consume_flow_scalar_non_whitespace_chars, scan_plain_scalar) build heap strings and did not finish under Kani; "
                  "they are outside the claim.",
    "harnesses": [H("c04_escape_sequences_short", "parser.scanner", ["Scanner::resolve_flow_scalar_escape_sequence", "char_traits::is_hex", "char_traits::as_hex", "Scanner::skip_n_non_blank"],
                    "backslash + any ASCII char 1..126 + up to 4 printable ASCII chars (named table, x and u escapes), arbitrary start mark"),
                  H("c04_escape_sequences", "parser.scanner", ["Scanner::resolve_flow_scalar_escape_sequence", "char_traits::is_hex", "char_traits::as_hex", "Scanner::skip_n_non_blank"],
                    "backslash + any ASCII char 1..126 + up to 8 printable ASCII chars (also U escapes), arbitrary start mark", tiers=T, timeout={"thorough": 3000}),

                  H("c10_next_can_be_plain_scalar", "parser.input_str", ["StrInput::next_can_be_plain_scalar", "Input::next_can_be_plain_scalar (default body)"], UTF8 % 4)],
    "assumptions": ["escape text is ASCII"],
    "outside": "line folding, quote doubling, escaped line breaks, plain scalar scanning, non-ASCII pass-through",
}

KEYA = "key alphabet {a b 1 0 x ~ . - t r u e}"
PROPERTIES["C20"] = {
    "level": "model_checking",
    "level_text": "Bounded model checking of the two mechanisms that make &str lookups agree with node equality and hashing, on the real code: (1) hash-trace "
                  "equality - for EVERY key of up to 4 chars the byte stream that hash_str_as_yaml_string feeds a hasher equals the stream produced by "
                  "hashing the stored key node Value(String(k)), borrowed or owned, so the recomputed hash equals the stored one for every hasher; (2) "
                  "predicate equivalence - for EVERY probe and every small candidate key node (9 variants) the lookup closure accepts the candidate iff "
                  "the candidate equals the explicitly built string node iff it is a resolved string equal to the probe. For Yaml and YamlOwned.",
    "level_note": "hashbrown/hashlink probing (raw_entry().from_hash) is trusted: given equal hashes and this predicate it returns the matching entry. Real "
                  "mappings (Index panics, integer indexing vs get) are outside the claim: LinkedHashMap operations do not finish under Kani. The annotated "
                  "node types build a real needle node and hash it with the same Hash impl (consistent by construction; not separately decided).",
    "harnesses": [
        H("c20_hash_trace_yaml", "saphyr.yaml", ["saphyr::yaml::hash_str_as_yaml_string", "<Yaml as Hash>::hash (derived)", "<Scalar as Hash>::hash", "<Cow<str> as Hash>::hash"], "every key 0..4 chars over " + KEYA),
        H("c20_predicate_yaml", "saphyr.yaml", ["Yaml::as_str", "<Yaml as PartialEq>::eq (derived)"], "probe 0..3 chars x candidate text 0..3 chars x 9 candidate variants"),
        H("c20_hash_trace_yaml_owned", "saphyr.yaml_owned", ["saphyr::yaml_owned::hash_str_as_yaml_string", "<YamlOwned as Hash>::hash (derived)", "<ScalarOwned as Hash>::hash"], "every key 0..4 chars over " + KEYA),
        H("c20_predicate_yaml_owned", "saphyr.yaml_owned", ["YamlOwned::as_str", "<YamlOwned as PartialEq>::eq (derived)"], "probe 0..3 chars x candidate text 0..3 chars x 9 candidate variants"),
    ],
    "assumptions": ["ASCII keys", "hash tables locate an entry given an equal hash and a true predicate (hashbrown trusted)"],
    "outside": "Index/IndexMut panic conditions, integer indexing, lookups on real LinkedHashMap instances, annotated node types",
}

DOCSTART = {
    "c16_docstart_stream_end": "[StreamEnd]", "c16_docstart_skip_doc_ends": "[DocumentEnd, DocumentEnd, StreamEnd]", "c16_docstart_implicit_scalar": "[Scalar]",
    "c16_docstart_explicit": "[DocumentStart, Scalar]", "c16_docstart_explicit_required_missing": "[Scalar] where '---' is required",
    "c16_docstart_version": "[%YAML, ---]", "c16_docstart_two_versions": "[%YAML, %YAML, ---]", "c16_docstart_one_tag": "[%TAG !!, ---]",
    "c16_docstart_redeclare_kept_handle": "[%TAG !a!, ---] where !a! is kept from an earlier document",
    "c16_docstart_tag_then_version": "[%TAG !b!, %YAML, ---]", "c16_docstart_version_then_tag": "[%YAML, %TAG !b!, ---]",
    "c16_docstart_tag_without_docstart": "[%TAG !b!, Scalar]",
}
def DS(name):
    return H(name, "lm.parser", ["Parser::document_start", "Parser::explicit_document_start", "Parser::parser_process_directives"],
             "token template " + DOCSTART[name] + " x keep_tags on/off, with a handle (!a! -> old:) left by an earlier document",
             stubs=[LM_STUB, INJ])
PROPERTIES["C02"]["harnesses"] += [DS(n) for n in ["c16_docstart_stream_end", "c16_docstart_skip_doc_ends", "c16_docstart_implicit_scalar", "c16_docstart_explicit"]]
RESOLVE = {"c16_resolve_no_directives": "no directive", "c16_resolve_named_only": "!a! !b! bound, anchor before tag",
           "c16_resolve_secondary_and_primary": "!! and ! rebound", "c16_resolve_only_b": "only !b! bound"}
PROPERTIES["C16"] = {
    "level": "model_checking",
    "level_text": "Bounded model checking of the real directive processing and tag resolution (Parser::parser_process_directives, resolve_tag, document_end) "
                  "over injected token templates: for 12 directive prologue shapes of up to 2 directives (handles fixed per template; prologues with two %TAG directives ran out of memory), keep_tags on/off and "
                  "the handle table left by an earlier document, the table in force after '---' equals the reference (a %TAG survives a following %YAML and "
                  "vice versa, a kept handle may be redeclared, repeated %YAML rejected, directives without '---' rejected); for every tag spelling "
                  "(!!s !a!s !b!s !c!s !s !<v> !) under 4 handle tables the reported tag is prefix-of-handle + suffix, undeclared named handles are errors.",
    "level_note": "Token KIND sequences are concrete templates (a symbolic kind sequence makes the directive loops explode); payloads, options and tables are "
                  "symbolic. Tag scanning (scan_tag*, percent-decoding in scan_uri_escapes) builds heap strings and is outside the claim. " + LM_STUB,
    "prepare": ["gen_parser"],
    "harnesses": [DS(n) for n in DOCSTART] + [H(n, "lm.parser", ["Parser::resolve_tag", "Parser::parse_node"], "tag spelling symbolic over 7 x table: " + d, stubs=[LM_STUB, INJ]) for n, d in RESOLVE.items()]
                 + [H("c15_docend_explicit_then_doc", "lm.parser", ["Parser::document_end"], "[..., DocumentEnd, Scalar] x keep_tags", stubs=[LM_STUB, INJ])],
    "assumptions": [LM_STUB, INJ, "handles/prefixes from a pool of 4"],
    "outside": "scan_tag, scan_tag_handle, scan_tag_shorthand_suffix, scan_verbatim_tag, scan_tag_prefix, scan_uri_escapes (tag text scanning and percent-decoding)",
}
DOCEND = ["c15_docend_explicit_then_doc", "c15_docend_explicit_then_directive", "c15_docend_explicit_then_eof", "c15_docend_implicit_then_docstart", "c15_docend_implicit_then_eof"]
PROPERTIES["C15"] = {
    "level": "model_checking",
    "level_text": "Bounded model checking of the parser-side reset at document boundaries on the real code: after the DocumentEnd step (explicit '...' or "
                  "implicit) the state stack is empty, the next-document state is the initial one for that boundary kind, %TAG handles are dropped unless "
                  "keep_tags, and the next document's directive prologue yields exactly its own table (no handle of the previous document unless keep_tags) "
                  "- for every template/handle/option choice. With the inductive grammar step of C02 (parser behaviour depends only on state, stack, tables) "
                  "this gives independence of documents at the parser level.",
    "level_note": "Scanner-side reset (indentation, simple keys, flow level at '---'/'...') and anchor-table clearing in load() are outside the claim: "
                  "fetch_document_indicator/unroll_indent and the recursive load() did not finish under Kani. " + LM_STUB,
    "prepare": ["gen_parser"],
    "harnesses": [H(n, "lm.parser", ["Parser::document_end"], "token template x keep_tags on/off, table with 2 handles", stubs=[LM_STUB, INJ]) for n in DOCEND]
                 + [DS(n) for n in ["c16_docstart_one_tag", "c16_docstart_implicit_scalar", "c16_docstart_explicit"]],
    "assumptions": [LM_STUB, INJ],
    "outside": "scanner state at document markers; Parser::load anchor clearing; concatenation statement for whole streams (argued from the step properties)",
}

PEEK_FUNCS = ["Parser::peek", "Parser::next_event", "Parser::next_event_impl", "Parser::parse"]
PROPERTIES["C17"] = {
    "level": "model_checking",
    "level_text": "Bounded model checking of the real peek/next wrappers (Parser::peek, next_event, next_event_impl) on top of the parser step: for every "
                  "look-ahead state (an event cached or not, StreamEnd already delivered or not) and both first calls, peek shows the cached / the next "
                  "event and keeps it, next returns it, reads no token when one was cached and clears the cache, nothing is returned after StreamEnd; "
                  "from the end-of-stream state four call histories of four peek/next calls show StreamEnd until next has delivered it and nothing "
                  "afterwards. The events themselves are decided per parser state under C02.",
    "level_note": "The push interface (Parser::load, load_document, load_node recursion, per-document anchor clearing) is outside the claim: it did not finish "
                  "under Kani. Longer call histories follow by induction on the step (argued). " + LM_STUB,
    "prepare": ["gen_parser"],
    "harnesses": [H("c17_wrapper_" + w, "lm.parser", PEEK_FUNCS, "look-ahead state / call order " + w + "; span of the cached event symbolic, next token a scalar", stubs=[LM_STUB, INJ])
                  for w in ["cached_peek_next", "cached_next", "fresh_next", "ended_peek_next", "ended_next"]] + [
                  ] + [H("c17_fuse_" + h, "lm.parser", PEEK_FUNCS, "token template [StreamEnd], call history " + h.replace("_", ", "), stubs=[LM_STUB, INJ])
                       for h in ["peek_next_next_peek", "next_next_peek_next", "peek_peek_next_next", "next_peek_next_peek"]],
    "assumptions": [LM_STUB, INJ],
    "outside": "Parser::load / load_document / load_node / load_sequence / load_mapping (push interface) and its anchor-table lifetime",
}
C06_STEPS = ["c02_step_flow_sequence_entry_d2", "c02_step_flow_mapping_key_d2", "c02_step_block_node_d2", "c02_step_block_sequence_entry_d2", "c02_step_block_mapping_key_d2"]
PROPERTIES["C06"] = {
    "level": "model_checking",
    "level_text": "Bounded model checking of the rejection obligations that sit in units within reach, on the real code: unknown / truncated / non-scalar "
                  "escapes are errors for every text after the backslash (escape decoder); a tab used as block indentation followed by content is an "
                  "error and tabs elsewhere are not (skip_to_next_token, all texts <= 3 in block/top/flow contexts); repeated %YAML, directives without '---', a directive after an implicit document end, an alias without anchor and an undeclared named handle "
                  "are errors for every payload choice (parser templates); and in the parser steps for flow sequences/mappings and block collections every "
                  "token sequence that lacks the required ',' / ']' / '}' / '-' / key yields Err or an event the grammar still allows - never a silently "
                  "ill-formed stream (the C02 monitor).",
    "level_note": "Damage classes that need scanner functions beyond reach (unterminated quoted scalar, misaligned '-'/'?', flow collection not indented, "
                  "multi-line implicit key, 1024-character key, second root node, content after '...') are outside the claim. " + LM_STUB,
    "prepare": ["gen_parser"],
    "harnesses": [H("c04_escape_sequences_short", "parser.scanner", ["Scanner::resolve_flow_scalar_escape_sequence"], "backslash + any ASCII + up to 4 printable chars"),
                  H("c12_skip_to_next_token_block_2", "parser.scanner", ["Scanner::skip_to_next_token"], SCAN_UNIT_HARNESSES["c12_skip_to_next_token_block_2"]),
                  DS("c16_docstart_two_versions"), DS("c16_docstart_tag_without_docstart"), DS("c16_docstart_explicit_required_missing"),
                  DS("c16_docstart_redeclare_kept_handle"),
                  H("c15_docend_explicit_then_directive", "lm.parser", ["Parser::document_end"], "[DocumentEnd, %TAG] and keep_tags", stubs=[LM_STUB, INJ]),
                  H("c15_docend_implicit_then_docstart", "lm.parser", ["Parser::document_end"], "[DocumentStart, Scalar]", stubs=[LM_STUB, INJ]),
                  H("c16_resolve_only_b", "lm.parser", ["Parser::resolve_tag"], "7 tag spellings, only !b! bound", stubs=[LM_STUB, INJ]),
                  H("c06_alias_without_anchor", "lm.parser", ["Parser::parse_node"], "token template [Alias(name)] x every name x anchor table {a, b}", stubs=[LM_STUB, INJ])]
                 + [H(n, "lm.parser", PARSER_FUNCS, "parser step, see C02", stubs=[LM_STUB, INJ], tiers=T, timeout={"thorough": 1800}) for n in C06_STEPS],
    "assumptions": [LM_STUB, INJ],
    "outside": "unterminated quoted scalars / flow collections at end of input, misaligned block entries, flow collections not indented, multi-line or over-long implicit keys, second root node, content after '...' (scanner functions beyond reach)",
}

PROPERTIES["C09"] = {
    "level": "model_checking",
    "level_text": "Bounded model checking of the scalar-string half of the round trip on the real code: (1) the quoting decision covers the resolver - for "
                  "EVERY string of up to 4 (thorough 5) characters over a 24-symbol alphabet of digits, signs, '.', '~', '_' and the letters of type-like "
                  "words, need_quotes(s) == false implies Scalar::parse_from_cow(s) == String(s) (real need_quotes, real resolver); (2) escape_str writes, "
                  "for EVERY valid UTF-8 string of up to 3 characters incl. all control characters, a one-line double-quoted scalar that a reference "
                  "decoder reads back as the input, using only escapes of the YAML 1.2 table (which the real scanner decodes - C04 harness).",
    "level_note": "Collection layout (emit_sequence/mapping/val, complex keys, compact mode), literal block emission, number formatting and re-scanning of "
                  "plain strings in their syntactic position (indicator characters, ': ', ' #') are outside the claim: they need the scanner's scalar "
                  "functions or float formatting, beyond reach. f64::from_str is a contract stub.",
    "harnesses": [H("c09_unquoted_strings_resolve_as_strings_3", "saphyr.emitter", ["saphyr::emitter::need_quotes", "Scalar::parse_from_cow", "loader::parse_f64"], "every string 0..3 over the 24-symbol alphabet", stubs=[F64_STUB]),
                  H("c09_unquoted_strings_resolve_as_strings_4", "saphyr.emitter", ["saphyr::emitter::need_quotes", "Scalar::parse_from_cow", "loader::parse_f64"], "every string 0..4 over the 24-symbol alphabet", stubs=[F64_STUB]),
                  H("c09_unquoted_strings_resolve_as_strings_5", "saphyr.emitter", ["saphyr::emitter::need_quotes", "Scalar::parse_from_cow", "loader::parse_f64"], "every string 0..5 over the 24-symbol alphabet", stubs=[F64_STUB], tiers=T),
                  H("c09_escape_str_roundtrip_1", "saphyr.emitter", ["saphyr::emitter::escape_str"], "every character below U+0800 (all ASCII incl. controls, 2-byte characters)"),
                  H("c09_escape_str_roundtrip_2", "saphyr.emitter", ["saphyr::emitter::escape_str"], "every valid UTF-8 string of 0..2 characters below U+0800", tiers=T, timeout={"thorough": 3000}),],
    "assumptions": [F64_STUB],
    "outside": "collection layout, literal blocks, numbers, plain strings containing indicator characters in position, idempotence of a second emit",
}

DEC_STUB = ("encoding_rs::Decoder::decode_to_string_without_replacement -> contract stub (reads <= remaining input, writes <= spare capacity, InputEmpty only "
            "at end of input, OutputFull without progress only when fewer than 4 bytes are spare, Malformed(len>=1, after) with len+after <= bytes read >= 1)")
PROPERTIES["C18"] = {
    "level": "other",
    "level_text": "Two solver-decided obligations on the real code. (1) Bounded model checking of the encoding decision (Encoding::for_bom + "
                  "detect_utf16_endianness, real code incl. encoding_rs::Encoding::for_bom): for EVERY text that starts with an ASCII character followed by "
                  "at most one more arbitrary BMP character, in each of the 6 encodings, the selected encoding is the one the text is in; inputs of 0-3 "
                  "arbitrary bytes never index out of bounds and inputs shorter than 2 bytes fall back to UTF-8. (2) Termination of decode_loop for every "
                  "input of up to 5 bytes, every trap and EVERY decoder behaviour allowed by the documented decoder contract (nondeterministic contract "
                  "stub): the loop is left within 2(4N+4)+1 iterations (unwinding assertion derived from the progress argument) and the error-context slicing "
                  "never panics. A non-termination verdict is confirmed natively by running the real decoders under a watchdog.",
    "level_note": "Level 'other' because the decoder is a contract stub, not the real encoding_rs code (its UTF-16/UTF-8 fast paths did not finish under Kani "
                  "for 4 symbolic bytes); equality of the decoded text with the original is encoding_rs's correctness and is trusted. " + DEC_STUB,
    "harnesses": [H("c18_selects_encoding_used", "saphyr.encoding", ["saphyr::encoding::detect_utf16_endianness", "encoding_rs::Encoding::for_bom", "YamlDecoder::decode (selection lines)"],
                    "first char ASCII 1..127, optional second char any BMP scalar except NUL/BOM, 6 encodings"),
                  H("c18_detect_short_inputs", "saphyr.encoding", ["saphyr::encoding::detect_utf16_endianness"], "every input of 0..3 arbitrary bytes"),
                  H("c18_decode_loop_terminates_2", "saphyr.encoding", ["saphyr::encoding::decode_loop"], "inputs 0..2 bytes x 5 traps x every contract-conforming decoder behaviour; <= 25 iterations",
                    stubs=[DEC_STUB, "String::reserve -> contract model with least growth on an abstract (len, capacity) pair", "alloc::fmt::format -> empty string"], nonterm_loop="decode_loop", native_probe="c18_native_hang_probe"),
                  H("c18_decode_loop_terminates_4", "saphyr.encoding", ["saphyr::encoding::decode_loop"], "inputs 0..4 bytes x 5 traps x every contract-conforming decoder behaviour; <= 41 iterations",
                    stubs=[DEC_STUB, "String::reserve -> contract model with least growth on an abstract (len, capacity) pair", "alloc::fmt::format -> empty string"], nonterm_loop="decode_loop", native_probe="c18_native_hang_probe", tiers=T)],
    "assumptions": [DEC_STUB, "NUL does not occur in the text (YAML streams cannot contain it; the detection scheme presupposes it)",
                    "decoded text equals the original for each encoding (encoding_rs correctness trusted)"],
    "outside": "equality of decoded documents; texts whose second character is astral; real decoder code paths",
}

PROPERTIES["C19"] = {
    "level": "model_checking",
    "level_text": "Bounded model checking, on the real code and through the public API, of the parts of the statement that do not need a hash map: owned and "
                  "borrowed scalars resolve identically for EVERY text of up to 2 chars x 5 styles x {no tag, !!int, !!str}; parse_representation and "
                  "parse_representation_recursive leave every already-resolved node (integer, string, null, alias) untouched and BadValue as BadValue, "
                  "resolve a Representation to the value the eager loader computes; MarkedYaml equality "
                  "and hashing depend on the data only (hash-trace equality under arbitrary spans); Scalar::into_owned/as_scalar round trip (C08 harness).",
    "level_note": "Structural identity of the four node types for whole documents, and deferred-vs-eager equality for mappings, go through LinkedHashMap / the "
                  "loader and are outside the claim (not finishing under Kani). f64::from_str is a contract stub.",
    "harnesses": [H("c19_owned_and_borrowed_" + t, "ext.c19", ["ScalarOwned::parse_from_cow_and_metadata", "Scalar::parse_from_cow_and_metadata", "Scalar::into_owned"], "texts 0..2 over {1 0 x . - ~ t n a e} x 5 styles, tag choice " + t, stubs=[F64_STUB]) for t in ["untagged", "int_tag", "str_tag"]] + [
                  ] + [H("c19_parse_representation_" + n, "ext.c19", ["Yaml::parse_representation", "Yaml::parse_representation_recursive", "Yaml::take"], "node variant " + n + " x texts 0..2 x 5 styles x any i64", stubs=[F64_STUB])
                       for n in ["integer", "string", "alias", "badvalue", "null_recursive", "repr", "repr_recursive"]] + [
                  ] + [H("c19_marked_eq_hash_" + n, "ext.c19", ["<MarkedYaml as PartialEq>::eq", "<MarkedYaml as Hash>::hash", "<YamlData as Hash>::hash (derived)"], "data variant " + n + " x arbitrary payloads x arbitrary spans")
                       for n in ["integer", "boolean", "alias", "string"]] + [
                  H("c08_owned_3", "ext.c08", ["Scalar::into_owned", "ScalarOwned::as_scalar"], "texts 0..3; into_owned/as_scalar round trip", stubs=[F64_STUB], tiers=T)],
    "assumptions": [F64_STUB],
    "outside": "four node types on whole documents; early_parse(false) + resolve == eager for documents with sequences or mappings (a two-item sequence harness did not finish in 1200 s: recursive resolve over heap-stored nodes); MarkedYamlOwned/YamlOwned variants of parse_representation (same macro body)",
}

C01_STEPS_Q = ["c02_step_block_node_d0", "c02_step_block_mapping_value_d0", "c02_step_flow_sequence_entry_mapping_key_d0", "c02_step_indentless_sequence_entry_d0"]
C01_STEPS_T = ["c02_step_" + x + "_d0" for x in STATES_D if "c02_step_" + x + "_d0" not in C01_STEPS_Q]
PROPERTIES["C01"] = {
    "level": "model_checking",
    "level_text": "Bounded model checking of the panic sites and loops named by the property, unit by unit, on the real code: every required StrInput method "
                  "after every history of 3 skip/read/peek calls on every valid UTF-8 buffer (no panic, never inside a character); the StrInput fast paths "
                  "(fetch_while_is_alpha slicing, next_can_be_plain_scalar byte indexing) on every buffer; the flow-level counter "
                  "from every level (error at 255, never wraps); whitespace/comment skipping on all texts <= 2-3 (terminates within the unwinding bound); "
                  "and ONE parser step from an arbitrary well-formed configuration over all token sequences for every state (no pop_state/fetch_token/"
                  "unreachable panic; by induction no panic for token streams of any length - see C02). Unwinding assertions give termination within bounds.",
    "level_note": "The scanner's scalar/tag/directive functions and fetch_* (progress obligation, linear work bound), the push interface and the loaders are "
                  "outside the claim (not finishing under Kani). " + LM_STUB,
    "prepare": ["gen_parser"],
    "harnesses": [H("c01_strinput_required_methods_no_panic", "parser.input_str", ["StrInput::skip", "StrInput::skip_n", "StrInput::raw_read_ch", "StrInput::raw_read_non_breakz_ch", "StrInput::peek", "StrInput::peek_nth"], "valid UTF-8 buffers <= 4 chars / 8 bytes x every history of 3 calls"),
                  H("c10_fetch_while_is_alpha", "parser.input_str", ["StrInput::fetch_while_is_alpha"], UTF8 % 4),
                  H("c10_next_can_be_plain_scalar", "parser.input_str", ["StrInput::next_can_be_plain_scalar"], UTF8 % 4),
                  H("c01_increase_flow_level", "parser.scanner", ["Scanner::increase_flow_level"], "every flow_level 0..=255"),
                  H("c12_skip_to_next_token_top_2", "parser.scanner", ["Scanner::skip_to_next_token"], SCAN_UNIT_HARNESSES["c12_skip_to_next_token_top_2"])]
                 + [H(n, "lm.parser", PARSER_FUNCS, "parser step from an arbitrary configuration, see C02", stubs=[LM_STUB, INJ], timeout={"quick": 900, "thorough": 1800}) for n in C01_STEPS_Q]
                 + [H(n, "lm.parser", PARSER_FUNCS, "parser step from an arbitrary configuration, see C02", stubs=[LM_STUB, INJ], tiers=T, timeout={"thorough": 1800}) for n in C01_STEPS_T],
    "assumptions": [LM_STUB, INJ],
    "outside": "scan_* / fetch_* scanner functions (progress and linear-work obligations), Parser::load recursion, loaders, custom inputs with other buffer sizes",
}
# C02 quick = document-level + depth-2 variants; depth-0 variants are run in C02 thorough (and partly in C01 quick)
for h in PROPERTIES["C02"]["harnesses"]:
    if h["name"].endswith("_d0") or "_first_" in h["name"]:
        h["tiers"] = T


def run_prepare(step, root, work, log):
    import time
    t0 = time.time()
    if step == "gen_parser":
        r = subprocess.run(["python3", os.path.join(root, "kani/shim/gen_parser.py")], capture_output=True, text=True)
        if r.returncode != 0:
            return False, {"step": step, "error": r.stdout + r.stderr}
        env = dict(os.environ, CARGO_NET_OFFLINE="true", CARGO_TARGET_DIR=os.path.join(work, "target", "parser_lm", "native"))
        t = subprocess.run(["cargo", "test", "--offline"], cwd=os.path.join(work, "gen/parser_lm"), capture_output=True, text=True, env=env)
        out = t.stdout + t.stderr
        import re
        passed = sum(int(x) for x in re.findall(r"(\d+) passed", out))
        failed = sum(int(x) for x in re.findall(r"(\d+) failed", out))
        ok = t.returncode == 0 and failed == 0 and passed > 400
        log("  prepare gen_parser: substituted build passes %d repository tests, %d failed (%.0fs)" % (passed, failed, time.time() - t0))
        return ok, {"step": step, "translation_validation": {"tests_passed_on_substituted_build": passed, "failed": failed}, "wall_s": round(time.time() - t0, 1)}
    return True, {"step": step}

"""Harness registry: which Kani harnesses decide which property, with their bounds, stubs and caps."""
import os, subprocess

DEFAULT_TIMEOUT = {"quick": 600, "thorough": 3600}
DEFAULT_MEM_GB = 12
MAX_JOBS = 10
KNOWN_EXCLUSION_FLAGS = []  # names of `pub const X: bool` switches in .work/gen/known.rs

MODULES = {
    "ext.c08": {"crate": "ext", "modpath": "c08_resolver", "sympath": "sym", "pbfile": "ext.rs"},
}

F64_STUB = "<f64 as FromStr>::from_str -> contract stub (std-documented grammar, nondeterministic non-NaN value / inf / nan by class)"
Q = ("quick", "thorough")
T = ("thorough",)


def H(name, mod, funcs, bound, tiers=Q, stubs=(), timeout=None, flags=(), **kw):
    h = {"name": name, "mod": mod, "crate": MODULES[mod]["crate"], "funcs": list(funcs), "bound": bound,
         "tiers": tiers, "stubs": list(stubs), "flags": list(flags)}
    if timeout:
        h["timeout"] = timeout
    h.update(kw)
    return h


PROPERTIES = {}

NOT_APPLICABLE = {
    "C03": "needs an oracle at the level 'text of a structured stream -> event tree' over inputs long enough to nest (>= 8-20 chars through "
           "scanner and parser together); measured: Kani/CBMC does not finish symbolic execution of the scanner+parser pipeline even for 3 symbolic "
           "or 4 concrete characters (DESIGN.md section 1), and no unit-level decomposition has a specification-level oracle. Not decided by another technique.",
    "C11": "stack exhaustion is a property of the machine-level execution: CBMC/Kani has no stack-size model, recursion depth 10^5 is beyond any "
           "unwinding bound and recursive drop glue cannot be instrumented; a bounded-depth proxy would alarm on a correct depth-limited implementation. "
           "The only solver-decidable fragment (flow-level counter never wraps) is checked under C01.",
    "C13": "end-to-end statement over whole JSON texts (>= 10 chars, whole scanner+parser+loader pipeline): same reach problem as C03; its ingredients "
           "(escapes, number/literal resolution) are decided under C04/C08 but that does not decide C13.",
}

RES = ["saphyr::Scalar::parse_from_cow", "saphyr::loader::parse_f64", "core::num::<impl i64>::from_str_radix",
       "core::str::<impl str>::strip_prefix"]
RES_T = ["saphyr::Scalar::parse_from_cow_and_metadata"] + RES
LIT = "literal alphabet = 0-9 + - . e E x o _ ~ a-f A-F n u l t r s i y N U L T R S I Y"
PROPERTIES["C08"] = {
    "level": "model_checking",
    "level_text": "Bounded model checking of the real resolver (Scalar::parse_from_cow, parse_from_cow_and_metadata, parse_f64, ScalarOwned::*) "
                  "against an independent core-schema recogniser (explicit DFAs + i128 accumulation): the SAT solver decides soundness and the "
                  "listed completeness classes for EVERY text within the bound (all texts up to 4 / 6 chars over the literal alphabet, 64-bit "
                  "boundary templates, 5 styles x 8 tag choices), not a sample. Right level because the input space is small-alphabet text and "
                  "the interesting inputs (sign after prefix, 2^63 boundaries, word spellings) are rare.",
    "level_note": "f64::from_str is replaced by a contract stub implementing the std-documented grammar (numeric value trusted to std); "
                  "texts beyond the bound are outside the claim; Kani/CBMC/CaDiCaL and rustc are trusted.",
    "harnesses": [
        H("c08_untagged_4", "ext.c08", RES, "every text of length 0..4 over the " + LIT, stubs=[F64_STUB]),
        H("c08_untagged_5", "ext.c08", RES, "every text of length 0..5 over the " + LIT, tiers=T, stubs=[F64_STUB]),
        H("c08_untagged_6", "ext.c08", RES, "every text of length 0..6 over the " + LIT, tiers=T, stubs=[F64_STUB]),
        H("c08_boundary_dec_pos", "ext.c08", RES, "'922337203685477580' + 1..2 symbolic literal-alphabet chars", stubs=[F64_STUB]),
        H("c08_boundary_dec_plus", "ext.c08", RES, "'+922337203685477580' + 1..2 symbolic chars", stubs=[F64_STUB]),
        H("c08_boundary_dec_neg", "ext.c08", RES, "'-922337203685477580' + 1..2 symbolic chars", stubs=[F64_STUB]),
        H("c08_boundary_hex", "ext.c08", RES, "'0x' + 1 symbolic char + 14 symbolic-choice {0,f} digits + 1..2 symbolic chars", stubs=[F64_STUB]),
        H("c08_boundary_oct", "ext.c08", RES, "'0o' + 1 symbolic char + 19 sevens/zeros + 1..2 symbolic chars", stubs=[F64_STUB]),
        H("c08_tagged3_none", "ext.c08", RES_T, "5 styles x no tag x texts 0..3", stubs=[F64_STUB]),
        H("c08_tagged3_int", "ext.c08", RES_T, "5 styles x !!int x texts 0..3", stubs=[F64_STUB]),
        H("c08_tagged3_float", "ext.c08", RES_T, "5 styles x !!float x texts 0..3", stubs=[F64_STUB]),
        H("c08_tagged3_bool", "ext.c08", RES_T, "5 styles x !!bool x texts 0..5", stubs=[F64_STUB]),
        H("c08_tagged3_null", "ext.c08", RES_T, "5 styles x !!null x texts 0..4", stubs=[F64_STUB]),
        H("c08_tagged3_str", "ext.c08", RES_T, "5 styles x !!str x texts 0..3", stubs=[F64_STUB]),
        H("c08_tagged3_coreunk", "ext.c08", RES_T, "5 styles x core handle with unknown suffix x texts 0..3", stubs=[F64_STUB]),
        H("c08_tagged3_foreign", "ext.c08", RES_T, "5 styles x foreign handle with suffix int x texts 0..3", stubs=[F64_STUB]),
        H("c08_tagged5_int", "ext.c08", RES_T, "5 styles x !!int x texts 0..5", tiers=T, stubs=[F64_STUB]),
        H("c08_tagged5_float", "ext.c08", RES_T, "5 styles x !!float x texts 0..5", tiers=T, stubs=[F64_STUB]),
        H("c08_owned_3", "ext.c08", ["saphyr::ScalarOwned::parse_from_cow", "saphyr::ScalarOwned::parse_from_cow_and_metadata",
                                     "saphyr::Scalar::into_owned", "saphyr::ScalarOwned::as_scalar"] + RES,
          "texts 0..3; owned vs borrowed, untagged and !!int", stubs=[F64_STUB]),
    ],
    "assumptions": [
        F64_STUB + "; the numeric value std computes for an accepted float literal is trusted",
        "texts longer than the per-harness bound and characters outside the literal alphabet are outside the claim "
        "(any other character makes every std parser reject, so the String branch is the only one reachable - argued, not solved)",
        "Kani models the dev profile (overflow checks on); concrete counterexamples are replayed in dev and release",
    ],
    "outside": "texts longer than 6 chars except the 64-bit boundary templates; non-literal-alphabet characters",
}


def run_prepare(step, root, work, log):
    return True, {"step": step}

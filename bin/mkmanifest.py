#!/usr/bin/env python3
"""Regenerate MANIFEST.json from bin/registry.py (claimed properties) and the not-applicable table."""
import json, os, sys, subprocess
ROOT = os.path.dirname(os.path.dirname(os.path.abspath(__file__)))
sys.path.insert(0, os.path.join(ROOT, "bin"))
import registry

ALL = ["C%02d" % i for i in range(1, 21)]
checks = []
for pid in ALL:
    p = registry.PROPERTIES.get(pid)
    if not p or not p.get("claimed", True):
        continue
    checks.append({
        "property_id": pid,
        "quick_cmd": "bin/check %s --tier quick" % pid,
        "thorough_cmd": "bin/check %s --tier thorough" % pid,
        "evidence_file": "/verif/evidence/%s.json" % pid,
        "replay_cmd_template": "bin/check %s --replay {path}" % pid,
        "engine": "kani-cbmc",
        "level_claimed": {"category": p.get("level", "model_checking"), "text": p["level_text"], "design_ref": p.get("design_ref", "DESIGN.md section 3, " + pid)},
        "level_note": p["level_note"],
        "technique": p.get("technique", "bounded symbolic execution of the real functions (Kani -> CBMC, SAT) over all inputs within the stated bound; counterexamples replayed natively"),
    })
na = []
for pid in ALL:
    if pid in {c["property_id"] for c in checks}:
        continue
    na.append({"property_id": pid, "reason": registry.NOT_APPLICABLE.get(pid, "no check built for this property yet")})
try:
    commits = subprocess.check_output(["git", "-C", "/repo", "log", "--format=%H %s", "--grep", "^verif hook"], text=True).split("\n")
    commits = [c.split()[0] for c in commits if c.strip()]
except Exception:
    commits = []
m = {
    "version": 1,
    "setup_cmd": "bin/setup",
    "hooks": {
        "guard": "cfg(kani) (set only by the Kani compiler; never by cargo build/test)",
        "enable": "cargo kani (bin/check runs it in /repo/parser, /repo/saphyr and /verif/kani/ext with --target-dir under /verif/.work); hook lines are `#[cfg(kani)] #[path = \"/verif/kani/direct/...\"] mod verif_harness;`",
        "baseline_off_cmd": "cd /repo && cargo test --workspace --no-fail-fast --offline",
        "source_commits": commits,
        "add_only": True,
    },
    "engines": [
        {"name": "kani-cbmc", "path": "/verif/bin/check", "serves_properties": [c["property_id"] for c in checks],
         "kind_free_text": "Kani 0.68 compiles the real crates (and harnesses) to a CBMC 6.11 goto program; CaDiCaL decides every assertion for all inputs within the harness bound; unwinding assertions on; counterexamples replayed natively with cargo kani playback"},
    ],
    "checks": checks,
    "not_applicable": na,
    "notes": "All claims are bounded: 'holds for every input within bound B of harness H'. See DESIGN.md and evidence/<id>.json (functions encoded, bounds, stubs, queries, solver time). known_findings.txt lists fixed/known defects.",
}
json.dump(m, open(os.path.join(ROOT, "MANIFEST.json"), "w"), indent=1)
print("MANIFEST: %d checks, %d not applicable" % (len(checks), len(na)))

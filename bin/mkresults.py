#!/usr/bin/env python3
"""Render seeded/RESULTS.jsonl (written by bin/mutest) as seeded/RESULTS.md."""
import json, os
ROOT = os.path.dirname(os.path.dirname(os.path.abspath(__file__)))
rows = []
for l in open(os.path.join(ROOT, "seeded", "RESULTS.jsonl")):
    l = l.strip()
    if not l.startswith("{"):
        continue
    rows.append(json.loads(l))
seeds = sorted(d for d in os.listdir(os.path.join(ROOT, "seeded")) if os.path.isdir(os.path.join(ROOT, "seeded", d)))
by = {}
for r in rows:
    by.setdefault(r["seed"], []).append(r)
out = ["# Seeded changes vs. checks", "",
       "Each row: a change that compiles, passes the 186 tests and breaks the named property (see its meta.json / demo.rs),",
       "the check that was run against it (`bin/mutest <seed> <property> [--only ...]`) and the outcome.",
       "`caught` = exit 1 with a replayed VIOLATION; `missed` = exit 0; `not decided` = exit 2.", "",
       "| seed | summary | check run | outcome | wall s |", "|---|---|---|---|---|"]
for s in seeds:
    meta = {}
    mp = os.path.join(ROOT, "seeded", s, "meta.json")
    if os.path.exists(mp):
        meta = json.load(open(mp))
    summ = (meta.get("summary") or open(os.path.join(ROOT, "seeded", s, "what.txt")).read().strip() if (meta.get("summary") or os.path.exists(os.path.join(ROOT, "seeded", s, "what.txt"))) else "")
    summ = summ.replace("|", "/").replace("\n", " ")[:160]
    if s not in by:
        out.append("| %s | %s | (no check reaches the changed code: see DESIGN.md sections 1, 4) | not run | |" % (s, summ))
        continue
    for r in by[s]:
        oc = {0: "missed", 1: "**caught**", 2: "not decided"}.get(r["exit"], str(r["exit"]))
        out.append("| %s | %s | %s %s | %s | %s |" % (s, summ, r["property"], " ".join(r["args"]), oc, r["wall_s"]))
open(os.path.join(ROOT, "seeded", "RESULTS.md"), "w").write("\n".join(out) + "\n")
print("\n".join(out[-len(seeds)-8:]))

#[cfg(kani)]
mod h {
    use saphyr::{Scalar, Yaml, YamlLoader, LoadableYamlNode};
    use saphyr_parser::{Event, ScalarStyle, Span, SpannedEventReceiver};

    // contract stub for f64 parsing: accepted language only, value nondeterministic
    fn f64_from_str_stub(s: &str) -> Result<f64, std::num::ParseFloatError> {
        let b = s.as_bytes();
        let mut i = 0;
        if i < b.len() && (b[i] == b'+' || b[i] == b'-') { i += 1; }
        let mut digits = 0; let mut ok = true;
        while i < b.len() && b[i].is_ascii_digit() { i += 1; digits += 1; }
        if i < b.len() && b[i] == b'.' { i += 1; while i < b.len() && b[i].is_ascii_digit() { i += 1; digits += 1; } }
        if digits == 0 { ok = false; }
        if ok && i < b.len() && (b[i] == b'e' || b[i] == b'E') {
            i += 1;
            if i < b.len() && (b[i] == b'+' || b[i] == b'-') { i += 1; }
            let mut ed = 0; while i < b.len() && b[i].is_ascii_digit() { i += 1; ed += 1; }
            if ed == 0 { ok = false; }
        }
        if ok && i == b.len() { let v: f64 = kani::any(); kani::assume(v.is_finite()); return Ok(v); }
        // inf / infinity / nan (case-insensitive, optional sign) accepted by Rust
        let t = if !b.is_empty() && (b[0] == b'+' || b[0] == b'-') { &b[1..] } else { b };
        if t.eq_ignore_ascii_case(b"inf") || t.eq_ignore_ascii_case(b"infinity") { return Ok(f64::INFINITY); }
        if t.eq_ignore_ascii_case(b"nan") { return Ok(f64::NAN); }
        "x".parse::<f64>()
    }

    #[kani::proof]
    #[kani::unwind(8)]
    #[kani::stub(<f64 as std::str::FromStr>::from_str, f64_from_str_stub)]
    fn resolve_4() {
        let bytes: [u8; 4] = kani::any();
        let len: usize = kani::any();
        kani::assume(len <= 4);
        let mut i = 0; while i < 4 { kani::assume(bytes[i] < 0x80); i += 1; }
        let s = unsafe { std::str::from_utf8_unchecked(&bytes[..len]) };
        let r = Scalar::parse_from_cow(s.into());
        if let Scalar::Integer(_) = r {
            // core schema: no sign after 0x / 0o, no double sign
            assert!(!(len >= 3 && bytes[0] == b'0' && bytes[1] == b'x' && (bytes[2] == b'-' || bytes[2] == b'+')));
        }
        std::mem::forget(r);
    }

    #[kani::proof]
    #[kani::unwind(6)]
    fn loader_seq_2() {
        let mut l: YamlLoader<Yaml> = YamlLoader::default();
        let sp = Span::default();
        l.on_event(Event::StreamStart, sp);
        l.on_event(Event::DocumentStart(false), sp);
        l.on_event(Event::SequenceStart(0, None), sp);
        l.on_event(Event::Scalar("a".into(), ScalarStyle::DoubleQuoted, 0, None), sp);
        l.on_event(Event::Scalar("b".into(), ScalarStyle::DoubleQuoted, 0, None), sp);
        l.on_event(Event::SequenceEnd, sp);
        l.on_event(Event::DocumentEnd, sp);
        let docs = l.into_documents();
        assert!(docs.len() == 1);
        assert!(docs[0].as_vec().unwrap().len() == 2);
        std::mem::forget(docs);
    }
}

use super::*;
use crate::input::str::StrInput;
use crate::input::BufferedInput;

pub fn ascii_push(s: &mut String, c: char) {
    assert!((c as u32) < 0x80);
    unsafe { s.as_mut_vec().push(c as u8) };
}

struct ArrIter<const N: usize> { a: [u8; N], len: usize, pos: usize }
impl<const N: usize> Iterator for ArrIter<N> {
    type Item = char;
    fn next(&mut self) -> Option<char> {
        if self.pos < self.len { let c = self.a[self.pos] as char; self.pos += 1; Some(c) } else { None }
    }
}

fn sym_ascii<const N: usize>() -> ([u8; N], usize) {
    let bytes: [u8; N] = kani::any();
    let len: usize = kani::any();
    kani::assume(len <= N);
    let mut i = 0;
    while i < N {
        kani::assume(bytes[i] < 0x80);
        i += 1;
    }
    (bytes, len)
}

#[kani::proof]
#[kani::unwind(7)]
#[kani::stub(std::string::String::push, ascii_push)]
fn plain_scalar_unit_4_str() {
    let (bytes, len) = sym_ascii::<4>();
    let s = unsafe { std::str::from_utf8_unchecked(&bytes[..len]) };
    let mut sc = Scanner::new(StrInput::new(s));
    sc.indents.push(Indent { indent: -1, needs_block_end: true });
    sc.indent = 0;
    sc.input.lookahead(1);
    let r = sc.scan_plain_scalar();
    if let Ok(Token(span, TokenType::Scalar(_, v))) = &r {
        assert!(v.len() <= len);
        assert!(span.end.index <= len);
    }
    std::mem::forget(r);
    std::mem::forget(sc);
}

#[kani::proof]
#[kani::unwind(7)]
#[kani::stub(std::string::String::push, ascii_push)]
fn plain_scalar_unit_4_buf() {
    let (bytes, len) = sym_ascii::<4>();
    let mut sc = Scanner::new(BufferedInput::new(ArrIter { a: bytes, len, pos: 0 }));
    sc.indents.push(Indent { indent: -1, needs_block_end: true });
    sc.indent = 0;
    sc.input.lookahead(1);
    let r = sc.scan_plain_scalar();
    if let Ok(Token(span, TokenType::Scalar(_, v))) = &r {
        assert!(v.len() <= len);
        assert!(span.end.index <= len);
    }
    std::mem::forget(r);
    std::mem::forget(sc);
}

#[kani::proof]
#[kani::unwind(7)]
fn skip_to_next_token_unit_4() {
    let (bytes, len) = sym_ascii::<4>();
    let s = unsafe { std::str::from_utf8_unchecked(&bytes[..len]) };
    let mut sc = Scanner::new(StrInput::new(s));
    let r = sc.skip_to_next_token();
    assert!(sc.mark.index <= len);
    std::mem::forget(r);
    std::mem::forget(sc);
}

#[kani::proof]
#[kani::unwind(7)]
fn skip_linebreak_unit() {
    let (bytes, len) = sym_ascii::<3>();
    let s = unsafe { std::str::from_utf8_unchecked(&bytes[..len]) };
    let mut sc = Scanner::new(StrInput::new(s));
    sc.input.lookahead(2);
    let line0 = sc.mark.line;
    sc.skip_linebreak();
    assert!(sc.mark.line <= line0 + 1);
    assert!(sc.mark.index <= 2);
    std::mem::forget(sc);
}

//! Bounded, heap-free models of the std containers used by scanner.rs.
use core::ops::Deref;

pub const SCAP: usize = 16;

#[derive(Clone, Debug)]
pub struct String { buf: [u8; SCAP], len: usize }

impl String {
    pub fn new() -> Self { String { buf: [0; SCAP], len: 0 } }
    pub fn with_capacity(_: usize) -> Self { Self::new() }
    pub fn push(&mut self, c: char) {
        let code = c as u32;
        if code < 0x80 {
            assert!(self.len < SCAP, "shim String capacity");
            self.buf[self.len] = code as u8; self.len += 1;
        } else {
            let mut tmp = [0u8; 4];
            let s = c.encode_utf8(&mut tmp);
            self.push_str(s);
        }
    }
    pub fn push_str(&mut self, s: &str) {
        let b = s.as_bytes();
        let mut i = 0;
        while i < b.len() {
            assert!(self.len < SCAP, "shim String capacity");
            self.buf[self.len] = b[i]; self.len += 1; i += 1;
        }
    }
    pub fn clear(&mut self) { self.len = 0; }
    pub fn reserve(&mut self, _: usize) {}
    pub fn as_str(&self) -> &str { unsafe { core::str::from_utf8_unchecked(&self.buf[..self.len]) } }
    pub fn extend<I: IntoIterator<Item = char>>(&mut self, it: I) { for c in it { self.push(c); } }
}
impl Default for String { fn default() -> Self { Self::new() } }
impl Deref for String { type Target = str; fn deref(&self) -> &str { self.as_str() } }
impl AsRef<str> for String { fn as_ref(&self) -> &str { self.as_str() } }
impl From<&str> for String { fn from(s: &str) -> Self { let mut r = Self::new(); r.push_str(s); r } }
impl PartialEq for String { fn eq(&self, o: &Self) -> bool { self.as_str() == o.as_str() } }
impl Eq for String {}
impl PartialEq<str> for String { fn eq(&self, o: &str) -> bool { self.as_str() == o } }
impl PartialEq<&str> for String { fn eq(&self, o: &&str) -> bool { self.as_str() == *o } }
impl core::fmt::Display for String { fn fmt(&self, f: &mut core::fmt::Formatter) -> core::fmt::Result { f.write_str(self.as_str()) } }

pub enum Cow<'a, B: ?Sized + 'a> where B: ToOwnedShim { Borrowed(&'a B), Owned(B::Owned) }
impl<'a> Clone for Cow<'a, str> { fn clone(&self) -> Self { match self { Cow::Borrowed(b) => Cow::Borrowed(b), Cow::Owned(o) => Cow::Owned(o.clone()) } } }
impl<'a> core::fmt::Debug for Cow<'a, str> { fn fmt(&self, f: &mut core::fmt::Formatter) -> core::fmt::Result { f.write_str(self) } }
impl<'a> PartialEq for Cow<'a, str> { fn eq(&self, o: &Self) -> bool { **self == **o } }
impl<'a> Eq for Cow<'a, str> {}
pub trait ToOwnedShim { type Owned: Clone + core::fmt::Debug + PartialEq + Eq + Default; }
impl ToOwnedShim for str { type Owned = String; }
impl<'a> From<String> for Cow<'a, str> { fn from(s: String) -> Self { Cow::Owned(s) } }
impl<'a> Default for Cow<'a, str> { fn default() -> Self { Cow::Owned(String::new()) } }
impl<'a> Deref for Cow<'a, str> { type Target = str; fn deref(&self) -> &str { match self { Cow::Borrowed(b) => b, Cow::Owned(o) => o.as_str() } } }

pub const VCAP: usize = 6;
#[derive(Clone, Debug)]
pub struct Vec<T> { items: [Option<T>; VCAP], len: usize }
impl<T> Vec<T> {
    pub fn new() -> Self { Vec { items: [const { None }; VCAP], len: 0 } }
    pub fn push(&mut self, t: T) { assert!(self.len < VCAP, "shim Vec capacity"); self.items[self.len] = Some(t); self.len += 1; }
    pub fn pop(&mut self) -> Option<T> { if self.len == 0 { None } else { self.len -= 1; self.items[self.len].take() } }
    pub fn last(&self) -> Option<&T> { if self.len == 0 { None } else { self.items[self.len - 1].as_ref() } }
    pub fn last_mut(&mut self) -> Option<&mut T> { if self.len == 0 { None } else { self.items[self.len - 1].as_mut() } }
    pub fn is_empty(&self) -> bool { self.len == 0 }
    pub fn len(&self) -> usize { self.len }
    pub fn iter(&self) -> impl Iterator<Item = &T> { self.items[..self.len].iter().map(|o| o.as_ref().unwrap()) }
    pub fn iter_mut(&mut self) -> impl Iterator<Item = &mut T> { self.items[..self.len].iter_mut().map(|o| o.as_mut().unwrap()) }
}
impl<'a, T> IntoIterator for &'a Vec<T> {
    type Item = &'a T;
    type IntoIter = core::iter::Map<core::slice::Iter<'a, Option<T>>, fn(&'a Option<T>) -> &'a T>;
    fn into_iter(self) -> Self::IntoIter { fn f<'b, U>(o: &'b Option<U>) -> &'b U { o.as_ref().unwrap() } self.items[..self.len].iter().map(f::<T> as fn(&'a Option<T>) -> &'a T) }
}
impl<'a, T> IntoIterator for &'a mut Vec<T> {
    type Item = &'a mut T;
    type IntoIter = core::iter::Map<core::slice::IterMut<'a, Option<T>>, fn(&'a mut Option<T>) -> &'a mut T>;
    fn into_iter(self) -> Self::IntoIter { fn f<'b, U>(o: &'b mut Option<U>) -> &'b mut U { o.as_mut().unwrap() } self.items[..self.len].iter_mut().map(f::<T> as fn(&'a mut Option<T>) -> &'a mut T) }
}

pub const DCAP: usize = 8;
#[derive(Clone, Debug)]
pub struct VecDeque<T> { items: [Option<T>; DCAP], len: usize }
impl<T> VecDeque<T> {
    pub fn new() -> Self { VecDeque { items: [const { None }; DCAP], len: 0 } }
    pub fn push_back(&mut self, t: T) { assert!(self.len < DCAP, "shim VecDeque capacity"); self.items[self.len] = Some(t); self.len += 1; }
    pub fn pop_front(&mut self) -> Option<T> {
        if self.len == 0 { return None; }
        let r = self.items[0].take();
        let mut i = 1; while i < self.len { self.items[i - 1] = self.items[i].take(); i += 1; }
        self.len -= 1; r
    }
    pub fn back(&self) -> Option<&T> { if self.len == 0 { None } else { self.items[self.len - 1].as_ref() } }
    pub fn insert(&mut self, pos: usize, t: T) {
        assert!(self.len < DCAP, "shim VecDeque capacity"); assert!(pos <= self.len);
        let mut i = self.len; while i > pos { self.items[i] = self.items[i - 1].take(); i -= 1; }
        self.items[pos] = Some(t); self.len += 1;
    }
    pub fn is_empty(&self) -> bool { self.len == 0 }
    pub fn len(&self) -> usize { self.len }
}

#![allow(dead_code, unused_imports, unused_macros, clippy::all)]
pub mod shim;
macro_rules! debug_print { ($($arg:tt)*) => {{}}; }
macro_rules! vec { () => { crate::shim::Vec::new() }; }
macro_rules! format { ($($arg:tt)*) => { crate::shim::String::from("<formatted>") }; }
mod char_traits;
pub mod input;
pub mod scanner;
pub use scanner::*;
pub use input::Input;

/// Array-backed input implementing only the required methods of `Input` (so every provided
/// default method of the real trait is the code under analysis).
pub struct ArrInput<const N: usize> { pub a: [u8; N], pub len: usize, pub pos: usize, pub la: usize }
impl<const N: usize> Input for ArrInput<N> {
    fn lookahead(&mut self, count: usize) { if count > self.la { self.la = count; } }
    fn buflen(&self) -> usize { self.la }
    fn bufmaxlen(&self) -> usize { 16 }
    fn raw_read_ch(&mut self) -> char { let c = self.peek(); self.skip(); c }
    fn raw_read_non_breakz_ch(&mut self) -> Option<char> { let c = self.peek(); if c == '\0' || c == '\n' || c == '\r' { None } else { self.skip(); Some(c) } }
    fn skip(&mut self) { if self.pos < self.len { self.pos += 1; } if self.la > 0 { self.la -= 1; } }
    fn skip_n(&mut self, count: usize) { let mut i = 0; while i < count { self.skip(); i += 1; } }
    fn peek(&self) -> char { if self.pos < self.len { self.a[self.pos] as char } else { '\0' } }
    fn peek_nth(&self, n: usize) -> char { if self.pos + n < self.len { self.a[self.pos + n] as char } else { '\0' } }
}

#[cfg(kani)]
mod h {
    use super::*;
    fn sym<const N: usize>() -> ArrInput<N> {
        let a: [u8; N] = kani::any();
        let len: usize = kani::any();
        kani::assume(len <= N);
        let mut i = 0; while i < N { kani::assume(a[i] < 0x80 && a[i] != 0); i += 1; }
        ArrInput { a, len, pos: 0, la: 0 }
    }
    #[kani::proof]
    #[kani::unwind(10)]
    fn scan_all_4() {
        let inp = sym::<4>();
        let mut sc = Scanner::new(inp);
        let mut n = 0usize;
        while let Some(t) = sc.next() { n += 1; core::mem::forget(t); if n > 12 { break; } }
        assert!(n <= 12);
        core::mem::forget(sc);
    }
    #[kani::proof]
    #[kani::unwind(7)]
    fn plain_unit_4() {
        let inp = sym::<4>();
        let len = inp.len;
        let mut sc = Scanner::new(inp);
        sc.verif_set_block_ctx();
        let r = sc.verif_scan_plain();
        if let Ok(Token(span, TokenType::Scalar(_, v))) = &r {
            assert!(v.len() <= len);
            assert!(span.end.index() <= len);
        }
        core::mem::forget(r);
        core::mem::forget(sc);
    }
    #[kani::proof]
    #[kani::unwind(8)]
    fn dq_unit_5() {
        let inp = sym::<5>();
        kani::assume(inp.len >= 1 && inp.a[0] == b'"');
        let len = inp.len;
        let mut sc = Scanner::new(inp);
        let r = sc.verif_scan_flow(false);
        if let Ok(Token(span, TokenType::Scalar(_, v))) = &r {
            assert!(v.len() <= len);
            assert!(span.end.index() <= len);
        }
        core::mem::forget(r);
        core::mem::forget(sc);
    }
    #[kani::proof]
    #[kani::unwind(12)]
    fn scan_all_6() {
        let inp = sym::<6>();
        let mut sc = Scanner::new(inp);
        let mut n = 0usize;
        while let Some(t) = sc.next() { n += 1; core::mem::forget(t); if n > 16 { break; } }
        assert!(n <= 16);
        core::mem::forget(sc);
    }
}
